package main

import (
	"bufio"
	"bytes"
	"encoding/json"
	"flag"
	"fmt"
	"image"
	"image/color"
	"image/jpeg"
	"math/rand"
	"os"

	"github.com/cocosip/go-dicom-codecs/jpeg/baseline"
	"github.com/cocosip/go-dicom-codecs/jpeg/extended"
)

func init() { register("c15", runC15) }

// c15: interoperability of the DCT codecs with an independent JPEG implementation (image/jpeg).
//   fwd: baseline.Encode / extended.Encode (8 bit) -> image/jpeg.Decode versus the library's own decoder
//   rev: streams of image/jpeg.Encode and of the TLA+ reference encoder (spec/JpegSeqGen.tla) -> baseline.Decode,
//        extended.Decode versus image/jpeg.Decode (and versus the image the specification computes for DC-only streams)
// Events per scenario: case (what the stream is), ref (independent decoder), lib (one per library decoder).

type c15Scn struct {
	Stream []int  `json:"stream"`
	W      int    `json:"w"`
	H      int    `json:"h"`
	C      int    `json:"c"`
	Samp   string `json:"samp"`
	Ri     int    `json:"ri"`
	Tab    string `json:"tab"`
	Ids    string `json:"ids"`
	App    int    `json:"app"`
	Mode   string `json:"mode"`
	Pack   string `json:"pack"`
	Cid    int    `json:"cid"`
	Nrst   int    `json:"nrst"`
	Exp    []int  `json:"exp"`
}

// refDecode: the independent decoder. Grey -> one value per pixel; YCbCr -> RGB through color.YCbCrToRGB.
func refDecode(stream []byte) (pix []int, w, h, c int, err error) {
	img, err := jpeg.Decode(bytes.NewReader(stream))
	if err != nil {
		return nil, 0, 0, 0, err
	}
	b := img.Bounds()
	w, h = b.Dx(), b.Dy()
	switch m := img.(type) {
	case *image.Gray:
		c = 1
		pix = make([]int, w*h)
		for y := 0; y < h; y++ {
			for x := 0; x < w; x++ {
				pix[y*w+x] = int(m.Pix[m.PixOffset(b.Min.X+x, b.Min.Y+y)])
			}
		}
	case *image.YCbCr:
		c = 3
		pix = make([]int, w*h*3)
		for y := 0; y < h; y++ {
			for x := 0; x < w; x++ {
				yi := m.YOffset(b.Min.X+x, b.Min.Y+y)
				ci := m.COffset(b.Min.X+x, b.Min.Y+y)
				r, g, bb := color.YCbCrToRGB(m.Y[yi], m.Cb[ci], m.Cr[ci])
				o := (y*w + x) * 3
				pix[o], pix[o+1], pix[o+2] = int(r), int(g), int(bb)
			}
		}
	case *image.RGBA:
		c = 3
		pix = make([]int, w*h*3)
		for y := 0; y < h; y++ {
			for x := 0; x < w; x++ {
				i := m.PixOffset(b.Min.X+x, b.Min.Y+y)
				o := (y*w + x) * 3
				pix[o], pix[o+1], pix[o+2] = int(m.Pix[i]), int(m.Pix[i+1]), int(m.Pix[i+2])
			}
		}
	default:
		return nil, w, h, 0, fmt.Errorf("harness: image/jpeg returned %T", img)
	}
	return pix, w, h, c, nil
}

func maxAbsDiff(a, b []int) int {
	if len(a) != len(b) {
		return -1
	}
	m := 0
	for i := range a {
		d := a[i] - b[i]
		if d < 0 {
			d = -d
		}
		if d > m {
			m = d
		}
	}
	return m
}

func bytesToInts(b []byte) []int {
	o := make([]int, len(b))
	for i, v := range b {
		o[i] = int(v)
	}
	return o
}

func runC15(args []string) error {
	fs := flag.NewFlagSet("c15", flag.ExitOnError)
	scnPath := fs.String("scn", "", "reference-encoder streams from TLC (ndjson)")
	outPath := fs.String("out", "", "trace output")
	seed := fs.Int64("seed", 1, "seed")
	n := fs.Int("n", 300, "random cases per direction")
	maxdim := fs.Int("maxdim", 64, "max dimension of random cases")
	exh := fs.Int("exh", 1, "1: a seeded ninth of the sizes 1..33 x 1..33 per family, 2: all")
	full := fs.Int("full", 1500, "log whole sample arrays up to this many samples; above, the harness logs the maximum difference")
	fs.Parse(args)
	t, err := NewTrace(*outPath)
	if err != nil {
		return err
	}
	defer t.Close()
	r := rand.New(rand.NewSource(*seed))
	scn := 0

	// one scenario: stream + meta -> ref event + lib events
	run := func(meta string, stream []byte, w, h, c int, decs []string, exp []int) {
		scn++
		t.Reset(scn)
		t.Event("case", "cfg", json.RawMessage(meta), "w", w, "h", h, "c", c, "slen", len(stream))
		var ref []int
		var rw, rh, rc int
		var rerr error
		pan, site, class := protect(func() { ref, rw, rh, rc, rerr = refDecode(stream) })
		es := errStr(rerr)
		if pan {
			es = "panic: " + site + ": " + class
		}
		big := w*h*c > *full
		kv := []any{"ok", es == "", "err", es, "w", rw, "h", rh, "c", rc, "n", len(ref), "big", big}
		if !big {
			kv = append(kv, "pix", ref)
		}
		if exp == nil {
			exp = []int{}
		}
		kv = append(kv, "exp", exp)
		if len(exp) > 0 && es == "" {
			kv = append(kv, "expd", maxAbsDiff(ref, exp))
		}
		t.Event("ref", kv...)
		for _, dn := range decs {
			var out []byte
			var ow, oh, oc int
			var oerr error
			pan, site, class := protect(func() {
				if dn == "baseline" {
					out, ow, oh, oc, oerr = baseline.Decode(stream)
				} else {
					out, ow, oh, oc, _, oerr = extended.Decode(stream)
				}
			})
			es := errStr(oerr)
			if pan {
				es = "panic: " + site + ": " + class
			}
			oi := bytesToInts(out)
			kv := []any{"dec", dn, "ok", es == "", "err", es, "w", ow, "h", oh, "c", oc, "n", len(out), "big", big}
			if big {
				kv = append(kv, "maxd", maxAbsDiff(oi, ref))
			} else {
				kv = append(kv, "out", oi)
			}
			t.Event("lib", kv...)
		}
	}

	classes := []string{"noise", "noise", "checker", "twolevel", "extremes", "smooth", "ramp", "const", "sparse"}
	both := []string{"baseline", "extended"}

	// ---- fwd: library encoders
	fwd := func(api string, w, h, c, q int, cls string) {
		src := genSamples(r, cls, w, h, c, 255)
		var st []byte
		var e error
		pan, site, class := protect(func() { st, e = rtEncode(rtCase{API: api, W: w, H: h, C: c, P: 8, Quality: q}, packSamples(src, 8)) })
		if pan {
			e = fmt.Errorf("panic: %s: %s", site, class)
		}
		meta := fmt.Sprintf(`{"dir":"fwd","src":"%s","samp":"%s","rst":0,"q":%d,"cls":"%s","tab":"lib","mode":"image"}`, api, map[int]string{1: "grey", 3: "444"}[c], q, cls)
		if e != nil {
			scn++
			t.Reset(scn)
			t.Event("case", "cfg", json.RawMessage(meta), "w", w, "h", h, "c", c, "slen", 0)
			t.Event("encfail", "err", e.Error())
			return
		}
		run(meta, st, w, h, c, []string{api}, nil)
	}
	// ---- rev: image/jpeg.Encode (grey 1x1, colour 4:2:0)
	revStd := func(w, h, c, q int, cls string) {
		src := genSamples(r, cls, w, h, c, 255)
		var buf bytes.Buffer
		var img image.Image
		if c == 1 {
			g := image.NewGray(image.Rect(0, 0, w, h))
			for i, v := range src {
				g.Pix[(i/w)*g.Stride+i%w] = byte(v)
			}
			img = g
		} else {
			m := image.NewRGBA(image.Rect(0, 0, w, h))
			for p := 0; p < w*h; p++ {
				o := (p/w)*m.Stride + (p%w)*4
				m.Pix[o], m.Pix[o+1], m.Pix[o+2], m.Pix[o+3] = byte(src[3*p]), byte(src[3*p+1]), byte(src[3*p+2]), 255
			}
			img = m
		}
		if err := jpeg.Encode(&buf, img, &jpeg.Options{Quality: q}); err != nil {
			panic(err)
		}
		meta := fmt.Sprintf(`{"dir":"rev","src":"imagejpeg","samp":"%s","rst":0,"q":%d,"cls":"%s","tab":"std","mode":"image"}`, map[int]string{1: "grey", 3: "420"}[c], q, cls)
		run(meta, buf.Bytes(), w, h, c, both, nil)
	}

	// every quality once per family
	for q := 1; q <= 100; q++ {
		w, h := 1+r.Intn(*maxdim), 1+r.Intn(*maxdim)
		cls := classes[r.Intn(len(classes))]
		c := []int{1, 3}[q%2]
		fwd([]string{"baseline", "extended"}[(q/2)%2], w, h, c, q, cls)
		revStd(w, h, c, q, cls)
	}
	// every size 1..33 x 1..33 (quick: a seeded ninth per family)
	for w := 1; w <= 33; w++ {
		for h := 1; h <= 33; h++ {
			q := []int{100, 90, 75, 50, 95, 25}[(w+h)%6]
			cls := classes[(w*3+h)%len(classes)]
			if *exh >= 2 || (w*37+h*11+int(*seed))%9 == 0 {
				fwd("baseline", w, h, []int{1, 3}[(w+h)%2], q, cls)
			}
			if *exh >= 2 || (w*37+h*11+int(*seed)+3)%9 == 0 {
				fwd("extended", w, h, []int{1, 3}[(w+h+1)%2], q, cls)
			}
			if *exh >= 2 || (w*37+h*11+int(*seed)+5)%9 == 0 {
				revStd(w, h, 3, q, cls)
			}
			if *exh >= 2 || (w*37+h*11+int(*seed)+7)%9 == 0 {
				revStd(w, h, 1, q, cls)
			}
		}
	}
	for i := 0; i < *n; i++ {
		w, h := 1+r.Intn(*maxdim), 1+r.Intn(*maxdim)
		if i%10 == 0 {
			w, h = 200+r.Intn(57), 200+r.Intn(57)
		}
		q := 1 + r.Intn(100)
		cls := classes[r.Intn(len(classes))]
		c := []int{1, 3}[r.Intn(2)]
		if i%2 == 0 {
			fwd([]string{"baseline", "extended"}[r.Intn(2)], w, h, c, q, cls)
		} else {
			revStd(w, h, c, q, cls)
		}
	}
	nGo := scn

	// ---- rev: streams of the TLA+ reference encoder
	if *scnPath != "" {
		fh, err := os.Open(*scnPath)
		if err != nil {
			return err
		}
		defer fh.Close()
		sc := bufio.NewScanner(fh)
		sc.Buffer(make([]byte, 1<<20), 1<<28)
		for sc.Scan() {
			var s c15Scn
			if err := json.Unmarshal(sc.Bytes(), &s); err != nil {
				return fmt.Errorf("scenario: %v", err)
			}
			st := make([]byte, len(s.Stream))
			for i, v := range s.Stream {
				st[i] = byte(v)
			}
			rst := 0
			if s.Nrst > 0 {
				rst = 1
			}
			meta := fmt.Sprintf(`{"dir":"rev","src":"tla","samp":"%s","rst":%d,"q":0,"cls":"%s","tab":"%s","mode":"%s","ri":%d,"ids":"%s","app":%d,"pack":"%s","cid":%d}`,
				s.Samp, rst, s.Mode, s.Tab, s.Mode, s.Ri, s.Ids, s.App, s.Pack, s.Cid)
			run(meta, st, s.W, s.H, s.C, both, s.Exp)
		}
	}
	fmt.Printf("c15: scenarios=%d go=%d tla=%d events=%d\n", scn, nGo, scn-nGo, t.n)
	return nil
}
