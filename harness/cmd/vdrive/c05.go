package main

import (
	"fmt"
	"math/rand"
)

func init() {
	register("c05", runC05)
	register("c06", runC06)
}

// one accepted parameter object of the C05 premise: AppendLosslessLayer=true or (Rate=0 and TargetRatio=0)
func randLosslessParams(r *rand.Rand, i int) paramSpec {
	switch i % 5 {
	case 0:
		return paramSpec{Kind: "nil"}
	case 1:
		return paramSpec{Kind: "default"}
	}
	f := map[string]any{}
	keepLL := r.Intn(3) != 0
	if keepLL {
		f["appendLosslessLayer"] = true
		f["rate"] = []int{0, 1, 5, 7, 20, 40, 100, 1280}[r.Intn(8)]
		switch r.Intn(3) {
		case 0:
			ladders := [][]int{{1280, 640, 320, 160, 80, 40, 20, 10, 5}, {40, 20, 10}, {100, 50}, {20}, {640, 5}, {7, 3, 2, 1}}
			l := ladders[r.Intn(len(ladders))]
			f["rateLevels"] = l
		}
		if r.Intn(3) == 0 {
			f["targetRatio"] = float64([]int{0, 1, 2, 4, 8, 20, 50, 100}[r.Intn(8)]) + 0.0
		}
	} else {
		f["appendLosslessLayer"] = r.Intn(2) == 0
		f["rate"] = 0
		f["targetRatio"] = 0.0
	}
	f["numLayers"] = 1 + r.Intn(10)
	if r.Intn(2) == 0 {
		f["numLayers"] = 1
	}
	f["usePCRDOpt"] = r.Intn(2) == 0
	f["numLevels"] = r.Intn(7)
	f["progressionOrder"] = r.Intn(5)
	f["allowMCT"] = r.Intn(2) == 0
	kind := "typed"
	if i%5 == 4 {
		kind = "generic"
	}
	return paramSpec{Kind: kind, Fields: f}
}

func runC05(args []string) error {
	f := parseRT("c05", args)
	t, err := NewTrace(f.out)
	if err != nil {
		return err
	}
	defer t.Close()
	r := rand.New(rand.NewSource(f.seed))
	scn := 0
	one := func(ts string, rows, cols, ba, bs, spp, pixrep int, ps paramSpec, cls string, nframes int) {
		scn++
		t.Reset(scn, "prop", "C05", "rel", "bytes")
		fi := frameInfo(rows, cols, ba, bs, spp, pixrep, 0)
		frames := make([][]byte, nframes)
		for k := range frames {
			frames[k] = genFrame(r, fi, cls)
		}
		codecRoundTrip(t, ts, fi, frames, ps, cls)
	}
	pickInfo := func(i int) (ba, bs, spp, pixrep int) {
		if i%2 == 0 {
			ba, bs = 8, 2+r.Intn(7)
		} else {
			ba, bs = 16, 9+r.Intn(8)
		}
		spp = []int{1, 3}[r.Intn(2)]
		pixrep = r.Intn(2)
		return
	}
	// width x height grid with default and random accepted parameters
	wmax, hmax := 40, 80
	for w := 1; w <= wmax; w++ {
		for h := 1; h <= hmax; h++ {
			if f.exh < 2 && (w*131+h*17+int(f.seed))%23 != 0 {
				continue
			}
			ba, bs, spp, pixrep := pickInfo(w + h)
			ts := []string{"90", "92"}[(w+h)%2]
			one(ts, h, w, ba, bs, spp, pixrep, randLosslessParams(r, w*h), j2kClasses[r.Intn(len(j2kClasses))], 1)
		}
	}
	nGrid := scn
	for i := 0; i < f.n; i++ {
		ba, bs, spp, pixrep := pickInfo(i)
		w, h := 1+r.Intn(f.maxdim), 1+r.Intn(f.maxdim)
		switch r.Intn(6) {
		case 0:
			w = 1 + r.Intn(16)
		case 1:
			h = 1 + r.Intn(4)
		}
		nfr := 1
		if r.Intn(5) == 0 {
			nfr = 2 + r.Intn(2)
		}
		one([]string{"90", "92"}[i%2], h, w, ba, bs, spp, pixrep, randLosslessParams(r, i), j2kClasses[r.Intn(len(j2kClasses))], nfr)
	}
	if f.big {
		for i := 0; i < 40; i++ {
			ba, bs, spp, pixrep := pickInfo(i)
			one([]string{"90", "92"}[i%2], 100+r.Intn(500), 100+r.Intn(500), ba, bs, spp, pixrep, randLosslessParams(r, i), "noise", 1)
		}
	}
	fmt.Printf("c05: scenarios=%d grid=%d events=%d\n", scn, nGrid, t.n)
	return nil
}

func randHTParams(r *rand.Rand, i int) paramSpec {
	switch i % 4 {
	case 0:
		return paramSpec{Kind: "nil"}
	}
	f := map[string]any{}
	bw := []int{4, 8, 16, 32, 64}
	f["blockWidth"] = bw[r.Intn(5)]
	f["blockHeight"] = bw[r.Intn(5)]
	if r.Intn(2) == 0 {
		f["blockHeight"] = f["blockWidth"]
	}
	f["numLevels"] = r.Intn(7)
	kind := "typed"
	if i%4 == 3 {
		kind = "generic"
	}
	return paramSpec{Kind: kind, Fields: f}
}

func runC06(args []string) error {
	f := parseRT("c06", args)
	t, err := NewTrace(f.out)
	if err != nil {
		return err
	}
	defer t.Close()
	r := rand.New(rand.NewSource(f.seed))
	scn := 0
	one := func(ts string, rows, cols, ba, bs, spp, pixrep int, ps paramSpec, cls string) {
		scn++
		t.Reset(scn, "prop", "C06", "rel", "bytes")
		fi := frameInfo(rows, cols, ba, bs, spp, pixrep, 0)
		codecRoundTrip(t, ts, fi, [][]byte{genFrame(r, fi, cls)}, ps, cls)
	}
	pickInfo := func(i int) (ba, bs, spp, pixrep int) {
		ba = []int{8, 16}[i%2]
		bs = ba
		if r.Intn(2) == 0 {
			bs = 2 + r.Intn(ba-1)
		}
		spp = []int{1, 3}[r.Intn(2)]
		pixrep = r.Intn(2)
		return
	}
	g := 80
	for w := 1; w <= g; w++ {
		for h := 1; h <= g; h++ {
			if f.exh < 2 && (w*131+h*17+int(f.seed))%41 != 0 && !(w <= 3 && h <= 3) {
				continue
			}
			if f.exh >= 2 && (w*131+h*17+int(f.seed))%3 != 0 && w > 8 && h > 8 {
				continue
			}
			ba, bs, spp, pixrep := pickInfo(w + h)
			one([]string{"201", "202"}[(w+h)%2], h, w, ba, bs, spp, pixrep, randHTParams(r, w*h), j2kClasses[r.Intn(len(j2kClasses))])
		}
	}
	nGrid := scn
	for i := 0; i < f.n; i++ {
		ba, bs, spp, pixrep := pickInfo(i)
		w, h := 1+r.Intn(f.maxdim), 1+r.Intn(f.maxdim)
		switch r.Intn(6) {
		case 0:
			w = 1
		case 1:
			h = 1
		}
		one([]string{"201", "202"}[i%2], h, w, ba, bs, spp, pixrep, randHTParams(r, i), j2kClasses[r.Intn(len(j2kClasses))])
	}
	if f.big {
		for i := 0; i < 30; i++ {
			ba, bs, spp, pixrep := pickInfo(i)
			one([]string{"201", "202"}[i%2], 100+r.Intn(500), 100+r.Intn(500), ba, bs, spp, pixrep, randHTParams(r, i), "noise")
		}
		one("201", 459, 888, 16, 16, 1, 0, paramSpec{Kind: "nil"}, "noise")
	}
	nfix, err := c06Fixtures(t, &scn)
	if err != nil {
		return fmt.Errorf("third-party fixtures: %v", err)
	}
	fmt.Printf("c06: scenarios=%d grid=%d fixtures=%d events=%d\n", scn, nGrid, nfix, t.n)
	return nil
}
