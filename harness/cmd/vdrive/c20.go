package main

import (
	"bufio"
	"encoding/json"
	"fmt"
	"math/rand"
	"os"

	"github.com/cocosip/go-dicom-codecs/jpeg2000/colorspace"
	"github.com/cocosip/go-dicom-codecs/jpeg2000/t1"
	"github.com/cocosip/go-dicom-codecs/jpeg2000/wavelet"
)

func init() { register("c20", runC20) }

func i32s(a []int32) []int32 { return append([]int32{}, a...) }

func runC20(args []string) error {
	f := parseRT("c20", args)
	t, err := NewTrace(f.out)
	if err != nil {
		return err
	}
	defer t.Close()
	r := rand.New(rand.NewSource(f.seed))
	scn := 0
	// ---- MQ coder: stepped sequences
	mqLens := []int{1, 2, 3, 5, 8, 13, 30, 100, 300, 1000}
	if f.exh >= 2 {
		mqLens = append(mqLens, 5000, 20000, 100000)
	}
	nmq := 0
	for rep := 0; rep < f.n/40+1; rep++ {
		for _, n := range mqLens {
			for _, bias := range []int{0, 3, 20, 50, 80, 97, 100} {
				if n > 1000 && bias%50 != 0 && rep > 0 {
					continue
				}
				scn++
				t.Reset(scn)
				mqRecord(t, r, n, []int{1, 2, 19}[r.Intn(3)], bias)
				nmq++
			}
		}
	}
	// exhaustive short sequences over 2 contexts (all of length <= 8 in quick, <= 12 thorough)
	maxExh := 8
	if f.exh >= 2 {
		maxExh = 12
	}
	for n := 1; n <= maxExh; n++ {
		for code := 0; code < 1<<(2*n); code++ {
			if n > 8 && code%37 != int(f.seed)%37 {
				continue
			}
			scn++
			t.Reset(scn)
			mqRecordFixed(t, n, code)
			nmq++
		}
	}
	// ---- 5/3 wavelet
	ndwt := 0
	dwt := func(w, h, levels, x0, y0 int, amp int32) {
		scn++
		t.Reset(scn)
		src := make([]int32, w*h)
		for i := range src {
			src[i] = int32(r.Int63n(int64(2*amp+1))) - amp
		}
		fwd := i32s(src)
		es := ""
		var inv []int32
		pan, site, class := protect(func() {
			wavelet.ForwardMultilevelWithParity(fwd, w, h, levels, x0, y0)
			inv = i32s(fwd)
			wavelet.InverseMultilevelWithParity(inv, w, h, levels, x0, y0)
		})
		if pan {
			es = "panic: " + site + ": " + class
			inv = []int32{}
		}
		t.Event("dwt", "w", w, "h", h, "levels", levels, "x0", x0, "y0", y0, "src", src, "fwd", fwd, "inv", inv, "err", es)
		ndwt++
	}
	// every small geometry x origin parity
	gmax := 6
	if f.exh >= 2 {
		gmax = 12
	}
	for w := 1; w <= gmax; w++ {
		for h := 1; h <= gmax; h++ {
			for lv := 0; lv <= 3; lv++ {
				for o := 0; o < 4; o++ {
					if f.exh < 2 && (w+h+lv+o+int(f.seed))%3 != 0 {
						continue
					}
					dwt(w, h, lv, o%2+2*r.Intn(3), o/2+2*r.Intn(3), []int32{2, 255, 1 << 20}[r.Intn(3)])
				}
			}
		}
	}
	for i := 0; i < f.n; i++ {
		w, h := 1+r.Intn(f.maxdim), 1+r.Intn(f.maxdim)
		switch r.Intn(6) {
		case 0:
			w = 1 + r.Intn(3)
		case 1:
			h = 1 + r.Intn(3)
		case 2:
			w, h = 257, 1+r.Intn(4)
		}
		dwt(w, h, r.Intn(9), r.Intn(8), r.Intn(8), []int32{1, 2, 255, 4095, 1 << 16, 1 << 28}[r.Intn(6)])
	}
	// ---- RCT
	for i := 0; i < 20; i++ {
		scn++
		t.Reset(scn)
		n := 64
		R, G, B := make([]int32, n), make([]int32, n), make([]int32, n)
		amp := []int64{4, 255, 65535, 1 << 28}[i%4]
		for k := 0; k < n; k++ {
			R[k], G[k], B[k] = int32(r.Int63n(2*amp+1)-amp), int32(r.Int63n(2*amp+1)-amp), int32(r.Int63n(2*amp+1)-amp)
			if k < 8 { // extremes
				R[k], G[k], B[k] = int32(amp)*int32(1-2*(k&1)), int32(amp)*int32(1-2*((k>>1)&1)), int32(amp)*int32(1-2*((k>>2)&1))
			}
		}
		y, cb, cr := colorspace.ApplyRCTToComponents(i32s(R), i32s(G), i32s(B))
		ir, ig, ib := colorspace.ApplyInverseRCTToComponents(i32s(y), i32s(cb), i32s(cr))
		t.Event("rct", "r", R, "g", G, "b", B, "y", y, "cb", cb, "cr", cr, "ir", ir, "ig", ig, "ib", ib)
	}
	// ---- EBCOT T1: all 64 styles, orientations, block shapes
	nt1 := 0
	refArea, refEvery := 36, 7
	if f.exh >= 2 {
		refArea, refEvery = 100, 6
	}
	t1case := func(w, h, orient, style, bits int, cls string) {
		scn++
		t.Reset(scn)
		data := make([]int32, w*h)
		for i := range data {
			var v int32
			switch cls {
			case "noise":
				v = int32(r.Intn(1 << uint(bits)))
			case "sparse":
				if r.Intn(9) == 0 {
					v = int32(r.Intn(1 << uint(bits)))
				}
			case "const":
				v = int32(1<<uint(bits)) - 1
			case "single":
				if i == (w*h)/2 {
					v = int32(1<<uint(bits)) - 1
				}
			}
			if r.Intn(2) == 1 {
				v = -v
			}
			data[i] = v
		}
		mbp := -1
		for _, v := range data {
			if v < 0 {
				v = -v
			}
			for b := 30; b > mbp; b-- {
				if v>>uint(b) != 0 {
					mbp = b
					break
				}
			}
		}
		var out []int32
		es := ""
		npass := 0
		code := []byte{}
		rates := []int{}
		if mbp >= 0 {
			numPasses := 3*(mbp+1) - 2
			pan, site, class := protect(func() {
				enc := t1.NewT1Encoder(w, h, style)
				enc.SetOrientation(orient)
				passes, bytes, err := enc.EncodeLayered(data, numPasses, 0, nil, uint8(style))
				if err != nil {
					es = "encode: " + err.Error()
					return
				}
				npass = len(passes)
				lens := make([]int, len(passes))
				for i, p := range passes {
					lens[i] = p.Rate
				}
				code, rates = append(code, bytes...), lens
				dec := t1.NewT1Decoder(w, h, style)
				dec.SetOrientation(orient)
				if err := dec.DecodeLayeredWithMode(bytes, lens, mbp, 0, style&4 != 0, style&2 != 0); err != nil {
					es = "decode: " + err.Error()
					return
				}
				out = i32s(dec.GetData())
			})
			if pan {
				es = "panic: " + site + ": " + class
			}
			if es == "" && npass != numPasses {
				es = fmt.Sprintf("encoder reported %d passes, expected %d", npass, numPasses)
			}
		} else {
			out = i32s(data)
		}
		if out == nil {
			out = []int32{}
		}
		// ref: the encoder's bytes are also decoded by the T.800 Annex D reference decoder of spec/T1.tla (small blocks: TLC time)
		ref := w*h <= refArea && mbp < 10 && nt1%refEvery == 0
		t.Event("t1", "w", w, "h", h, "orient", orient, "style", style, "bits", bits, "cls", cls, "passes", npass, "src", data, "out", out, "err", es,
			"ref", ref, "code", code, "rates", rates)
		nt1++
	}
	shapes := [][2]int{{1, 1}, {2, 2}, {3, 3}, {4, 4}, {5, 7}, {8, 8}, {1, 9}, {9, 1}, {4, 5}, {7, 6}, {16, 16}, {13, 3}, {3, 13}, {32, 6}, {6, 32}, {64, 4}, {4, 64}, {33, 31}}
	if f.exh >= 2 {
		shapes = append(shapes, [2]int{64, 64}, [2]int{64, 63}, [2]int{63, 64}, [2]int{1, 64}, [2]int{64, 1})
		for w := 1; w <= 8; w++ {
			for h := 1; h <= 8; h++ {
				shapes = append(shapes, [2]int{w, h})
			}
		}
	}
	reps := 1
	if f.exh >= 2 {
		reps = 3
	}
	for rep := 0; rep < reps; rep++ {
		for style := 0; style < 64; style++ {
			for si, sh := range shapes {
				if f.exh < 2 && (style+si+int(f.seed))%4 != 0 {
					continue
				}
				t1case(sh[0], sh[1], r.Intn(4), style, []int{1, 2, 4, 7, 10, 14, 20, 24}[r.Intn(8)], []string{"noise", "noise", "sparse", "const", "single"}[r.Intn(5)])
			}
		}
	}
	// dense sweep of small random blocks under every style: rare alignments (a terminated or raw pass ending on 0xFF,
	// a pass of zero length) strike a fraction of a percent of blocks
	dense := 1000
	if f.exh >= 2 {
		dense = 6000
	}
	for style := 0; style < 64; style++ {
		for k := 0; k < dense; k++ {
			t1case(1+r.Intn(24), 1+r.Intn(24), r.Intn(4), style, 5+r.Intn(8), []string{"noise", "noise", "sparse"}[r.Intn(3)])
		}
	}
	// ---- reverse direction (informational): blocks coded by the Annex D reference encoder of spec/T1.tla, decoded by the library
	nrev := 0
	if f.scn != "" {
		fh, err := os.Open(f.scn)
		if err != nil {
			return err
		}
		defer fh.Close()
		sc := bufio.NewScanner(fh)
		sc.Buffer(make([]byte, 1<<20), 1<<26)
		for sc.Scan() {
			var b struct {
				W, H, Orient, Style, Planes int
				Src, Code, Rates            []int
			}
			if err := json.Unmarshal(sc.Bytes(), &b); err != nil {
				return fmt.Errorf("t1 scenario: %v", err)
			}
			scn++
			t.Reset(scn)
			var out []int32
			es := ""
			if b.Planes > 0 {
				code := make([]byte, len(b.Code))
				for i, v := range b.Code {
					code[i] = byte(v)
				}
				pan, site, class := protect(func() {
					dec := t1.NewT1Decoder(b.W, b.H, b.Style)
					dec.SetOrientation(b.Orient)
					if err := dec.DecodeLayeredWithMode(code, b.Rates, b.Planes-1, 0, b.Style&4 != 0, b.Style&2 != 0); err != nil {
						es = "decode: " + err.Error()
						return
					}
					out = i32s(dec.GetData())
				})
				if pan {
					es = "panic: " + site + ": " + class
				}
			} else {
				out = make([]int32, b.W*b.H)
			}
			if out == nil {
				out = []int32{}
			}
			t.Event("t1rev", "w", b.W, "h", b.H, "orient", b.Orient, "style", b.Style, "planes", b.Planes, "src", b.Src, "out", out, "err", es)
			nrev++
		}
	}
	fmt.Printf("c20: scenarios=%d mq=%d dwt=%d t1=%d t1rev=%d events=%d\n", scn, nmq, ndwt, nt1, nrev, t.n)
	return nil
}
