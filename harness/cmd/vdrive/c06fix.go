package main

import (
	"encoding/json"
	"os"
	"path/filepath"
)

// Third-party fixtures of C06: test-data/htj2k/interop/manifest.json lists raw images and the OpenJPH/fo-dicom
// lossless codestreams made from them. Each codestream is decoded through the registered HTJ2K codec of its
// progression (.201 default, .202 RPCL) and logged next to the raw image; TLC compares (ContractTrace, "fixdec").
type interopManifest struct {
	Fixtures []struct {
		Name          string `json:"name"`
		Width         int    `json:"width"`
		Height        int    `json:"height"`
		Components    int    `json:"components"`
		BitsAllocated int    `json:"bitsAllocated"`
		BitsStored    int    `json:"bitsStored"`
		Signed        bool   `json:"signed"`
		InputRaw      string `json:"inputRaw"`
		Codestreams   map[string]struct {
			Path             string `json:"path"`
			Lossless         bool   `json:"lossless"`
			ProgressionOrder string `json:"progressionOrder"`
		} `json:"codestreams"`
	} `json:"fixtures"`
}

func repoRoot() string {
	if v := os.Getenv("VERIF_REPO"); v != "" {
		return v
	}
	return "/repo"
}

// c06Fixtures records one fixdec event per third-party codestream; returns the number of events.
func c06Fixtures(t *TraceWriter, scn *int) (int, error) {
	dir := filepath.Join(repoRoot(), "test-data", "htj2k", "interop")
	raw, err := os.ReadFile(filepath.Join(dir, "manifest.json"))
	if err != nil {
		return 0, err
	}
	var m interopManifest
	if err := json.Unmarshal(raw, &m); err != nil {
		return 0, err
	}
	n := 0
	for _, fx := range m.Fixtures {
		src, err := os.ReadFile(filepath.Join(dir, fx.InputRaw))
		if err != nil {
			return n, err
		}
		for kind, cs := range fx.Codestreams {
			if !cs.Lossless {
				continue
			}
			stream, err := os.ReadFile(filepath.Join(dir, cs.Path))
			if err != nil {
				return n, err
			}
			ts := "201"
			if cs.ProgressionOrder == "RPCL" {
				ts = "202"
			}
			pixrep := 0
			if fx.Signed {
				pixrep = 1
			}
			fi := frameInfo(fx.Height, fx.Width, fx.BitsAllocated, fx.BitsStored, fx.Components, pixrep, 0)
			*scn++
			t.Reset(*scn, "prop", "C06", "rel", "bytes")
			c, err := getCodec(ts)
			if err != nil {
				return n, err
			}
			dec := NewPD(fi)
			var derr error
			pan, site, class := protect(func() { derr = c.Decode(NewPD(fi, stream), dec, nil) })
			es := errStr(derr)
			if pan {
				es = "panic: " + site + ": " + class
			}
			out := concat(dec.frames)
			kv := []any{"name", fx.Name, "kind", kind, "ts", ts, "info", infoJSON(fi), "slen", len(stream), "nout", len(dec.frames), "err", es,
				"srclen", len(src), "outlen", len(out), "srcsha", sha(src), "outsha", sha(out)}
			if len(src) <= digestThreshold {
				kv = append(kv, "big", false, "src", src, "out", out)
			} else {
				kv = append(kv, "big", true)
			}
			t.Event("fixdec", kv...)
			n++
		}
	}
	return n, nil
}
