package main

import (
	"fmt"
	"math/rand"

	"github.com/cocosip/go-dicom-codecs/jpeg2000/htj2k"
)

func init() { register("mel", runMel) }

// mel: symbol strings through htj2k.MELEncoder / MELDecoder (informational companion of C06, see spec/MelTrace.tla).
func runMel(args []string) error {
	f := parseRT("mel", args)
	t, err := NewTrace(f.out)
	if err != nil {
		return err
	}
	defer t.Close()
	r := rand.New(rand.NewSource(f.seed))
	for i := 0; i < f.n; i++ {
		n := 1 + r.Intn(f.maxdim)
		if i%7 == 0 {
			n = 200 + r.Intn(400) // long enough to climb to state 12
		}
		p1 := []int{2, 5, 20, 60, 300}[r.Intn(5)] // a one every p1 symbols on average
		syms := make([]int, n)
		for j := range syms {
			if r.Intn(p1) == 0 {
				syms[j] = 1
			}
		}
		var bytes []byte
		out := []int{}
		es := ""
		pan, site, class := protect(func() {
			enc := htj2k.NewMELEncoder()
			for _, s := range syms {
				enc.EncodeBit(s)
			}
			bytes = append(bytes, enc.Flush()...)
			dec := htj2k.NewMELDecoder(bytes)
			for range syms {
				b, ok := dec.DecodeBit()
				if !ok {
					es = "decoder ran out of data"
					return
				}
				out = append(out, b)
			}
		})
		if pan {
			es = "panic: " + site + ": " + class
		}
		if bytes == nil {
			bytes = []byte{}
		}
		t.Reset(i + 1)
		t.Event("mel", "syms", syms, "bytes", bytes, "out", out, "err", es)
	}
	fmt.Printf("mel: scenarios=%d events=%d\n", f.n, t.n)
	return nil
}
