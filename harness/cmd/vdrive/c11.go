package main

import (
	"fmt"
	"math/rand"
)

func init() { register("c11", runC11) }

// c11: baseline / extended DCT round trips; the loss bound is computed by TLC from the stream's own DQT.
func runC11(args []string) error {
	f := parseRT("c11", args)
	t, err := NewTrace(f.out)
	if err != nil {
		return err
	}
	defer t.Close()
	r := rand.New(rand.NewSource(f.seed))
	scn := 0
	one := func(c rtCase, src []int) {
		scn++
		t.Reset(scn)
		runRT(t, c, src, rtOpts{logStream: true})
	}
	classes := []string{"noise", "noise", "checker", "twolevel", "extremes", "smooth", "ramp", "const", "sparse", "hfbasis", "stripes"}
	gen := func(cls string, w, h, c, maxval int) []int {
		switch cls {
		case "hfbasis": // block-aligned pure high-frequency DCT basis patterns on top of DC: long zero runs then a coefficient
			s := make([]int, w*h*c)
			u, v := 5+r.Intn(3), 5+r.Intn(3)
			amp := maxval / 3
			for y := 0; y < h; y++ {
				for x := 0; x < w; x++ {
					val := maxval/2 + int(float64(amp)*cosTab[(2*(x%8)+1)*u%32]*cosTab[(2*(y%8)+1)*v%32])
					for k := 0; k < c; k++ {
						s[(y*w+x)*c+k] = min(max(val, 0), maxval)
					}
				}
			}
			return s
		case "stripes": // 0 / max rows: largest vertical contrast
			s := make([]int, w*h*c)
			for y := 0; y < h; y++ {
				for x := 0; x < w*c; x++ {
					if y%2 == 1 {
						s[y*w*c+x] = maxval
					}
				}
			}
			return s
		}
		return genSamples(r, cls, w, h, c, maxval)
	}
	// every quality 1..100 is visited
	for q := 1; q <= 100; q++ {
		w, h := 1+r.Intn(f.maxdim), 1+r.Intn(f.maxdim)
		cls := classes[r.Intn(len(classes))]
		switch q % 4 {
		case 0:
			one(rtCase{API: "baseline", W: w, H: h, C: 1, P: 8, Quality: q, Cls: cls}, gen(cls, w, h, 1, 255))
		case 1:
			one(rtCase{API: "baseline", W: w, H: h, C: 3, P: 8, Quality: q, Cls: cls}, gen(cls, w, h, 3, 255))
		case 2:
			c := []int{1, 3}[r.Intn(2)]
			one(rtCase{API: "extended", W: w, H: h, C: c, P: 8, Quality: q, Cls: cls}, gen(cls, w, h, c, 255))
		case 3:
			one(rtCase{API: "extended", W: w, H: h, C: 1, P: 12, Quality: q, Cls: cls}, gen(cls, w, h, 1, 4095))
		}
	}
	// all partial-block shapes: sizes 1..33 x 1..33 (quick: a seeded fraction)
	for w := 1; w <= 33; w++ {
		for h := 1; h <= 33; h++ {
			if f.exh < 2 && (w*37+h*11+int(f.seed))%9 != 0 {
				continue
			}
			q := []int{100, 90, 75, 50, 95, 25}[(w+h)%6]
			cls := classes[(w*3+h)%len(classes)]
			switch (w + 2*h) % 4 {
			case 0:
				one(rtCase{API: "baseline", W: w, H: h, C: 1, P: 8, Quality: q, Cls: cls}, gen(cls, w, h, 1, 255))
			case 1:
				one(rtCase{API: "baseline", W: w, H: h, C: 3, P: 8, Quality: q, Cls: cls}, gen(cls, w, h, 3, 255))
			case 2:
				one(rtCase{API: "extended", W: w, H: h, C: 1, P: 8, Quality: q, Cls: cls}, gen(cls, w, h, 1, 255))
			case 3:
				one(rtCase{API: "extended", W: w, H: h, C: 1, P: 12, Quality: q, Cls: cls}, gen(cls, w, h, 1, 4095))
			}
		}
	}
	for i := 0; i < f.n; i++ {
		w, h := 1+r.Intn(f.maxdim), 1+r.Intn(f.maxdim)
		q := 1 + r.Intn(100)
		if r.Intn(3) == 0 {
			q = 90 + r.Intn(11)
		}
		cls := classes[r.Intn(len(classes))]
		switch r.Intn(5) {
		case 0, 1:
			c := []int{1, 3}[r.Intn(2)]
			one(rtCase{API: "baseline", W: w, H: h, C: c, P: 8, Quality: q, Cls: cls}, gen(cls, w, h, c, 255))
		case 2:
			c := []int{1, 3}[r.Intn(2)]
			one(rtCase{API: "extended", W: w, H: h, C: c, P: 8, Quality: q, Cls: cls}, gen(cls, w, h, c, 255))
		default:
			one(rtCase{API: "extended", W: w, H: h, C: 1, P: 12, Quality: q, Cls: cls}, gen(cls, w, h, 1, 4095))
		}
	}
	// deep Huffman codes: a large smooth image with a few full-range features; the per-image optimal tables give the
	// rare large-magnitude symbols 12..16-bit codes followed by up to 15 magnitude bits (12-bit extended process)
	ndeep := 20
	if f.exh >= 2 {
		ndeep = 40
	}
	for i := 0; i < ndeep; i++ {
		w, h := 200+r.Intn(57), 200+r.Intn(57)
		q := []int{100, 100, 98, 100, 100}[i%5] // quality 100: the largest magnitudes, hence the longest code + magnitude-bit pairs
		p, api := 12, "extended"
		if i%5 == 2 {
			p, api = 8, []string{"baseline", "extended"}[r.Intn(2)]
		}
		maxval := (1 << p) - 1
		s := make([]int, w*h)
		for y := 0; y < h; y++ {
			for x := 0; x < w; x++ {
				s[y*w+x] = maxval/4 + (x+y)*maxval/(4*(w+h)) + r.Intn(3)
			}
		}
		for k := 0; k < 2+r.Intn(3); k++ { // isolated 8x8 blocks of alternating 0 / max
			bx, by := 8*r.Intn(w/8-1), 8*r.Intn(h/8-1)
			for y := 0; y < 8; y++ {
				for x := 0; x < 8; x++ {
					s[(by+y)*w+bx+x] = ((x + y) % 2) * maxval
				}
			}
		}
		one(rtCase{API: api, W: w, H: h, C: 1, P: p, Quality: q, Cls: "deephuff"}, s)
	}
	fmt.Printf("c11: scenarios=%d events=%d\n", scn, t.n)
	return nil
}

// cos((k*pi)/16) for k = 0..31
var cosTab = [32]float64{1, 0.980785, 0.92388, 0.83147, 0.707107, 0.55557, 0.382683, 0.19509, 0, -0.19509, -0.382683, -0.55557, -0.707107, -0.83147, -0.92388, -0.980785,
	-1, -0.980785, -0.92388, -0.83147, -0.707107, -0.55557, -0.382683, -0.19509, 0, 0.19509, 0.382683, 0.55557, 0.707107, 0.83147, 0.92388, 0.980785}
