package main

import (
	"bufio"
	"encoding/json"
	"flag"
	"fmt"
	"math/rand"
	"os"
	"runtime"
	"sync"

	"github.com/cocosip/go-dicom/pkg/imaging/codec"
	"github.com/cocosip/go-dicom/pkg/imaging/imagetypes"
)

// c18: realise overlap schedules (which calls are in flight together, with which kind of parameters
// object) on the REGISTERED codec objects, under the race detector when built with -race.  Every call's
// outputs are compared (by TLC, via digests) with the outputs of the same call run alone.
func init() { register("c18", runC18) }

type concCall struct {
	Codec string `json:"codec"` // package directory of the codec type (from the extracted model)
	Op    string `json:"op"`
	Mode  string `json:"mode"` // nil | private | shared
	TS    string `json:"ts,omitempty"`
}
type concSched struct {
	Calls []concCall `json:"calls"`
}

var codecDirTS = map[string][]string{
	"rle": {"rle"}, "jpeg/baseline": {"50"}, "jpeg/extended": {"51"}, "jpeg/lossless": {"57"}, "jpeg/lossless14sv1": {"70"},
	"jpegls/lossless": {"80"}, "jpegls/nearlossless": {"81"}, "jpeg2000/lossless": {"90", "92"}, "jpeg2000/lossy": {"91", "93"},
	"jpeg2000/htj2k": {"201", "202", "203"},
}

type concFixture struct {
	fi      *imagetypes.FrameInfo
	frames  [][]byte
	streams [][]byte
	encSolo map[string][]string // mode -> sha per frame
	decSolo map[string][]string
}

func runC18(args []string) error {
	fs := flag.NewFlagSet("c18", flag.ExitOnError)
	scnPath := fs.String("scn", "", "overlap schedules from TLC (ndjson)")
	outPath := fs.String("out", "", "trace output")
	seed := fs.Int64("seed", 1, "seed")
	big := fs.Int("big", 6, "number of seeded many-goroutine batches")
	reps := fs.Int("reps", 2, "repetitions of each call inside a schedule")
	fs.Parse(args)
	t, err := NewTrace(*outPath)
	if err != nil {
		return err
	}
	defer t.Close()
	r := rand.New(rand.NewSource(*seed))
	// fixtures and solo results per transfer syntax: computed sequentially, before any concurrency
	// two fixture sets: small frames (6..16: below every "image too small for the requested levels / block size" threshold)
	// and larger ones; geometry-dependent parameter handling must be exercised both ways on every syntax
	fxs := [2]map[string]*concFixture{{}, {}}
	fx := fxs[0]
	shared := map[string]codec.Parameters{}
	for set := 0; set < 2; set++ {
		for _, ts := range allTS {
			c, err := getCodec(ts)
			if err != nil {
				return err
			}
			v := tsVariants[ts][r.Intn(len(tsVariants[ts]))]
			dim := 6 + r.Intn(11)
			if set == 1 {
				dim = 40 + r.Intn(30)
			}
			fi := frameInfo(dim, dim+r.Intn(5), v.ba, v.bs, v.spp, v.pixrep, 0)
			f := &concFixture{fi: fi, encSolo: map[string][]string{}, decSolo: map[string][]string{}}
			fr := c10Frames(r, fi)
			f.frames = [][]byte{fr["A"], fr["B"]}
			if set == 0 {
				shared[ts] = c.GetDefaultParameters() // ONE shared, already valid object per syntax
			}
			for _, mode := range []string{"nil", "private", "shared"} {
				enc := NewPD(fi)
				enc.copies = true
				if err := c.Encode(NewPD(fi, f.frames...), enc, paramsFor(c, ts, mode, shared)); err != nil {
					return fmt.Errorf("solo encode %s: %v", ts, err)
				}
				f.encSolo[mode] = shas(enc.frames)
				if mode == "nil" {
					f.streams = enc.frames
				}
			}
			for _, mode := range []string{"nil", "private", "shared"} {
				dec := NewPD(fi)
				dec.copies = true
				ins := [][]byte{append([]byte{}, f.streams[0]...), append([]byte{}, f.streams[1]...)}
				if err := c.Decode(NewPD(fi, ins...), dec, paramsFor(c, ts, mode, shared)); err != nil {
					return fmt.Errorf("solo decode %s: %v", ts, err)
				}
				f.decSolo[mode] = shas(dec.frames)
			}
			fxs[set][ts] = f
		}
	}
	// value snapshot of the shared parameters objects: they are "already valid", so no call may change them
	pdigest := func() []string {
		var d []string
		for _, ts := range allTS {
			d = append(d, sha([]byte(fmt.Sprintf("%+v", shared[ts]))))
		}
		return d
	}
	pinit := []string{}
	for _, ts := range allTS {
		c, _ := getCodec(ts)
		pinit = append(pinit, sha([]byte(fmt.Sprintf("%+v", c.GetDefaultParameters()))))
	}
	scn := 0
	runSched := func(calls []concCall, gmp int, kind string) {
		scn++
		t.Reset(scn)
		fx = fxs[scn%2]
		prev := runtime.GOMAXPROCS(gmp)
		type res struct {
			outs []string
			err  string
		}
		results := make([][]res, len(calls))
		start := make(chan struct{})
		var wg sync.WaitGroup
		for i, cl := range calls {
			results[i] = make([]res, *reps)
			wg.Add(1)
			go func(i int, cl concCall) {
				defer wg.Done()
				c, _ := getCodec(cl.TS)
				f := fx[cl.TS]
				<-start
				for k := 0; k < *reps; k++ {
					dst := NewPD(f.fi)
					var e error
					pan, site, class := protect(func() {
						if cl.Op == "Encode" {
							e = c.Encode(NewPD(f.fi, append([]byte{}, f.frames[0]...), append([]byte{}, f.frames[1]...)), dst, paramsFor(c, cl.TS, cl.Mode, shared))
						} else {
							e = c.Decode(NewPD(f.fi, append([]byte{}, f.streams[0]...), append([]byte{}, f.streams[1]...)), dst, paramsFor(c, cl.TS, cl.Mode, shared))
						}
					})
					es := errStr(e)
					if pan {
						es = "panic: " + site + ": " + class
					}
					results[i][k] = res{shas(dst.frames), es}
				}
			}(i, cl)
		}
		close(start)
		wg.Wait()
		runtime.GOMAXPROCS(prev)
		type callOut struct {
			TS   string     `json:"ts"`
			Op   string     `json:"op"`
			Mode string     `json:"mode"`
			Solo []string   `json:"solo"`
			Outs [][]string `json:"outs"`
			Errs []string   `json:"errs"`
		}
		var cos []callOut
		for i, cl := range calls {
			solo := fx[cl.TS].encSolo[cl.Mode]
			if cl.Op == "Decode" {
				solo = fx[cl.TS].decSolo[cl.Mode]
			}
			co := callOut{TS: cl.TS, Op: cl.Op, Mode: cl.Mode, Solo: solo}
			for _, rr := range results[i] {
				co.Outs = append(co.Outs, rr.outs)
				co.Errs = append(co.Errs, rr.err)
			}
			cos = append(cos, co)
		}
		b, _ := json.Marshal(cos)
		t.Event("conc", "kind", kind, "gomaxprocs", gmp, "ncalls", len(calls), "calls", json.RawMessage(b), "pshared", pdigest(), "pinit", pinit, "tsorder", allTS)
	}
	// (a) TLC-enumerated overlaps (pairs of model ops x parameter modes), mapped onto the registered syntaxes
	if *scnPath != "" {
		f, err := os.Open(*scnPath)
		if err != nil {
			return err
		}
		sc := bufio.NewScanner(f)
		sc.Buffer(make([]byte, 1<<20), 1<<24)
		n := 0
		for sc.Scan() {
			var s concSched
			if err := json.Unmarshal(sc.Bytes(), &s); err != nil {
				return err
			}
			for i := range s.Calls {
				tsl := codecDirTS[s.Calls[i].Codec]
				s.Calls[i].TS = tsl[(n+i)%len(tsl)]
			}
			runSched(s.Calls, []int{1, 2, 4, 16}[n%4], "tlc-pair")
			n++
		}
		f.Close()
	}
	// (b) seeded batches of up to 64 concurrent calls on all syntaxes
	for b := 0; b < *big; b++ {
		k := []int{8, 16, 32, 64}[b%4]
		var calls []concCall
		for i := 0; i < k; i++ {
			ts := allTS[r.Intn(len(allTS))]
			calls = append(calls, concCall{TS: ts, Op: []string{"Encode", "Decode"}[r.Intn(2)], Mode: []string{"nil", "private", "shared"}[r.Intn(3)]})
		}
		runSched(calls, []int{1, 2, 4, 16}[(b/4)%4], "seeded-batch")
	}
	fmt.Printf("c18: scenarios=%d events=%d\n", scn, t.n)
	return nil
}

func paramsFor(c codec.Codec, ts, mode string, shared map[string]codec.Parameters) codec.Parameters {
	switch mode {
	case "private":
		return c.GetDefaultParameters()
	case "shared":
		return shared[ts]
	}
	return nil
}
