package main

import (
	"math/rand"
)

// Content classes for P-bit sample images. Every generator is a pure function of the rng.
var sampleClasses = []string{"noise", "twolevel", "alt", "const", "runs", "runs_eol", "ramp", "checker", "extremes", "smooth", "sparse", "bigjump", "rowconst", "lownoise"}

// genSamples returns w*h*c interleaved samples in [0, maxval].
func genSamples(r *rand.Rand, class string, w, h, c, maxval int) []int {
	n := w * h * c
	s := make([]int, n)
	switch class {
	case "noise":
		for i := range s {
			s[i] = r.Intn(maxval + 1)
		}
	case "twolevel":
		for i := range s {
			if r.Intn(2) == 1 {
				s[i] = maxval
			}
		}
	case "alt":
		ph := r.Intn(2)
		for i := range s {
			if (i/c+ph)%2 == 1 {
				s[i] = maxval
			}
		}
	case "const":
		v := []int{0, maxval, maxval / 2, r.Intn(maxval + 1)}[r.Intn(4)]
		for i := range s {
			s[i] = v
		}
	case "runs": // long runs with rare interruptions
		v := r.Intn(maxval + 1)
		for i := 0; i < n; i += c {
			if r.Intn(17) == 0 {
				v = r.Intn(maxval + 1)
			}
			for k := 0; k < c; k++ {
				s[i+k] = v
				if r.Intn(41) == 0 {
					s[i+k] = r.Intn(maxval + 1) // isolated outlier (run interruption)
				}
			}
		}
	case "runs_eol": // runs ending exactly at the line end; change value at line starts or 1 before the end
		for y := 0; y < h; y++ {
			v := r.Intn(maxval + 1)
			cut := w
			if r.Intn(2) == 0 && w > 1 {
				cut = w - 1 - r.Intn(min(w-1, 3))
			}
			for x := 0; x < w; x++ {
				for k := 0; k < c; k++ {
					if x < cut {
						s[(y*w+x)*c+k] = v
					} else {
						s[(y*w+x)*c+k] = (v + 1 + r.Intn(maxval+1)) % (maxval + 1)
					}
				}
			}
		}
	case "ramp":
		step := 1 + r.Intn(max(1, min(maxval, 9)))
		for i := 0; i < n; i += c {
			for k := 0; k < c; k++ {
				s[i+k] = ((i / c) * step) % (maxval + 1)
			}
		}
	case "checker":
		for y := 0; y < h; y++ {
			for x := 0; x < w; x++ {
				for k := 0; k < c; k++ {
					if (x+y)%2 == 1 {
						s[(y*w+x)*c+k] = maxval
					}
				}
			}
		}
	case "extremes":
		for i := range s {
			d := r.Intn(min(maxval, 3) + 1)
			if r.Intn(2) == 0 {
				s[i] = d
			} else {
				s[i] = maxval - d
			}
		}
	case "smooth":
		amp := max(1, maxval/16)
		for y := 0; y < h; y++ {
			for x := 0; x < w; x++ {
				for k := 0; k < c; k++ {
					v := (x*maxval)/max(1, w) + (y*maxval)/max(1, 2*h) + r.Intn(amp) - amp/2
					if v < 0 {
						v = 0
					}
					if v > maxval {
						v = maxval
					}
					s[(y*w+x)*c+k] = v
				}
			}
		}
	case "sparse":
		for i := range s {
			if r.Intn(13) == 0 {
				s[i] = r.Intn(maxval + 1)
			}
		}
	case "bigjump": // full-range jumps between neighbours: 0, max, max/2+1, ...
		vals := []int{0, maxval, maxval/2 + 1, maxval / 2, 1, maxval - 1}
		for i := range s {
			s[i] = vals[r.Intn(len(vals))]
		}
	case "rowconst":
		for y := 0; y < h; y++ {
			v := r.Intn(maxval + 1)
			for x := 0; x < w*c; x++ {
				s[y*w*c+x] = v
			}
		}
	case "lownoise":
		base := r.Intn(maxval + 1)
		for i := range s {
			v := base + r.Intn(5) - 2
			if v < 0 {
				v = 0
			}
			if v > maxval {
				v = maxval
			}
			s[i] = v
		}
	default:
		panic("unknown content class " + class)
	}
	return s
}

// packSamples stores samples in the low P bits of an 8-bit (P<=8) or 16-bit LE (P>8) container.
func packSamples(s []int, p int) []byte {
	if p <= 8 {
		b := make([]byte, len(s))
		for i, v := range s {
			b[i] = byte(v)
		}
		return b
	}
	b := make([]byte, 2*len(s))
	for i, v := range s {
		b[2*i] = byte(v)
		b[2*i+1] = byte(v >> 8)
	}
	return b
}

func unpackSamples(b []byte, p int) []int {
	if p <= 8 {
		s := make([]int, len(b))
		for i, v := range b {
			s[i] = int(v)
		}
		return s
	}
	s := make([]int, len(b)/2)
	for i := range s {
		s[i] = int(b[2*i]) | int(b[2*i+1])<<8
	}
	return s
}

// Byte-string classes for RLE.
var byteClasses = []string{"noise", "const", "runs_at", "lits_at", "run2_in_lit", "mixed", "twolevel", "ramp"}

var rleLens = []int{1, 2, 3, 4, 126, 127, 128, 129, 130, 254, 255, 256, 257, 258, 259, 384, 385}

func genBytes(r *rand.Rand, class string, n int) []byte {
	b := make([]byte, n)
	switch class {
	case "noise":
		r.Read(b)
	case "const":
		v := byte(r.Intn(256))
		for i := range b {
			b[i] = v
		}
	case "runs_at": // runs whose lengths sit on the split points, separated by short literals
		i := 0
		v := byte(r.Intn(256))
		for i < n {
			L := rleLens[r.Intn(len(rleLens))]
			v += byte(1 + r.Intn(255))
			for k := 0; k < L && i < n; k++ {
				b[i] = v
				i++
			}
			lit := r.Intn(3)
			for k := 0; k < lit && i < n; k++ {
				v += byte(1 + r.Intn(255))
				b[i] = v
				i++
			}
		}
	case "lits_at": // literal stretches (no two equal neighbours) of those lengths, separated by runs of 3..5
		i := 0
		v := byte(r.Intn(256))
		for i < n {
			L := rleLens[r.Intn(len(rleLens))]
			for k := 0; k < L && i < n; k++ {
				v += byte(1 + r.Intn(255))
				b[i] = v
				i++
			}
			run := 3 + r.Intn(3)
			v += byte(1 + r.Intn(255))
			for k := 0; k < run && i < n; k++ {
				b[i] = v
				i++
			}
		}
	case "run2_in_lit": // 2-byte runs inside literals (must stay literal), occasionally 3
		v := byte(r.Intn(256))
		for i := 0; i < n; {
			v += byte(1 + r.Intn(255))
			rep := 1
			switch r.Intn(6) {
			case 0, 1:
				rep = 2
			case 2:
				rep = 3
			}
			for k := 0; k < rep && i < n; k++ {
				b[i] = v
				i++
			}
		}
	case "mixed":
		for i := 0; i < n; {
			v := byte(r.Intn(4)) * 85
			rep := 1 + r.Intn(4)
			if r.Intn(9) == 0 {
				rep = rleLens[r.Intn(len(rleLens))]
			}
			for k := 0; k < rep && i < n; k++ {
				b[i] = v
				i++
			}
		}
	case "twolevel":
		for i := range b {
			if r.Intn(2) == 1 {
				b[i] = 255
			}
		}
	case "ramp":
		for i := range b {
			b[i] = byte(i)
		}
	default:
		panic("unknown byte class " + class)
	}
	return b
}
