package main

import (
	"bufio"
	"encoding/json"
	"flag"
	"fmt"
	"math/rand"
	"os"

	"github.com/cocosip/go-dicom/pkg/imaging/imagetypes"

	"github.com/cocosip/go-dicom-codecs/jpeg2000"
)

func init() { register("c10", runC10) }

type c10Op struct {
	Op     string   `json:"op"`
	Frames []string `json:"frames"`
	Params string   `json:"params"`
}
type c10Hist struct {
	Ops []c10Op `json:"ops"`
}

type infoVariant struct{ ba, bs, spp, pixrep int }

func (v infoVariant) String() string { return fmt.Sprintf("%d/%d/%d/%d", v.ba, v.bs, v.spp, v.pixrep) }

var tsVariants = map[string][]infoVariant{
	"rle": {{8, 8, 1, 0}, {16, 16, 1, 0}, {8, 8, 3, 0}, {16, 12, 1, 0}},
	"50":  {{8, 8, 1, 0}, {8, 8, 3, 0}},
	"51":  {{8, 8, 1, 0}, {16, 12, 1, 0}},
	"57":  {{8, 8, 1, 0}, {16, 12, 1, 0}, {16, 16, 1, 0}, {8, 8, 3, 0}},
	"70":  {{8, 8, 1, 0}, {16, 12, 1, 0}, {16, 16, 1, 0}, {8, 8, 3, 0}},
	"80":  {{8, 8, 1, 0}, {16, 12, 1, 0}, {16, 16, 1, 0}, {8, 8, 3, 0}},
	"81":  {{8, 8, 1, 0}, {16, 12, 1, 0}, {8, 8, 3, 0}},
	"90":  {{8, 8, 1, 0}, {16, 12, 1, 0}, {16, 16, 1, 1}, {8, 8, 3, 0}, {8, 7, 1, 0}},
	"91":  {{8, 8, 1, 0}, {16, 12, 1, 0}, {8, 8, 3, 0}},
	"92":  {{8, 8, 1, 0}, {16, 12, 1, 0}, {8, 8, 3, 0}},
	"93":  {{8, 8, 1, 0}, {16, 12, 1, 0}, {8, 8, 3, 0}},
	"201": {{8, 8, 1, 0}, {16, 12, 1, 0}, {16, 16, 1, 0}, {8, 8, 3, 0}},
	"202": {{8, 8, 1, 0}, {16, 12, 1, 0}, {8, 8, 3, 0}},
	"203": {{8, 8, 1, 0}, {16, 12, 1, 0}, {8, 8, 3, 0}},
}

// three very different frames for one FrameInfo (values kept >= 1 and below the maximum so that
// the known HTJ2K minimum-sample finding of C06 does not mask history effects)
func c10Frames(r *rand.Rand, fi *imagetypes.FrameInfo) map[string][]byte {
	w, h, c, bs := int(fi.Width), int(fi.Height), int(fi.SamplesPerPixel), int(fi.BitsStored)
	maxv := (1 << bs) - 2
	if fi.PixelRepresentation != 0 {
		maxv = (1 << (bs - 1)) - 2 // stay in the non-negative half: container high bits are then zero
	}
	mk := func(f func(i int) int) []byte {
		s := make([]int, w*h*c)
		for i := range s {
			s[i] = 1 + f(i)%maxv
		}
		if fi.BitsAllocated <= 8 {
			return packSamples(s, 8)
		}
		return packSamples(s, 16)
	}
	return map[string][]byte{
		"A": mk(func(i int) int { return r.Intn(maxv) }),                           // noise
		"B": mk(func(i int) int { return (i / c) % 7 * (maxv / 8) }),               // coarse ramp
		"C": mk(func(i int) int { return ((i/c)%2 + (i/c/w)%2) % 2 * (maxv - 1) }), // checkerboard
	}
}

// c10Params: "nil" -> nil, "def" -> GetDefaultParameters(), "alt" -> a non-default object for the syntax
// (so that streams and calls differ from the default ones: a codec that remembers anything from a
// previous call shows it on the next default call).
func c10Params(ts, id string) paramSpec {
	switch id {
	case "nil":
		return paramSpec{Kind: "nil"}
	case "def":
		return paramSpec{Kind: "default"}
	}
	f := map[string]any{}
	switch ts {
	case "50", "51":
		f["quality"] = 55
	case "57":
		f["predictor"] = 1
	case "70":
		f["predictor"] = 1
	case "81":
		f["near"] = 9
	case "90", "92":
		f["rate"] = 0
		f["numLevels"] = 2
		f["progressionOrder"] = 2
	case "91", "93":
		f["numLevels"] = 2
		f["rate"] = 5
	case "201", "202", "203":
		f["blockWidth"] = 16
		f["blockHeight"] = 32
		f["numLevels"] = 2
	}
	return paramSpec{Kind: "typed", Fields: f}
}

// decode operations read the streams encoded under the same parameter id; the decode call itself gets
// nil parameters except for "def" (the shared default object kind)
func c10DecParams(id string) paramSpec {
	if id == "def" {
		return paramSpec{Kind: "default"}
	}
	return paramSpec{Kind: "nil"}
}

func expectedDecodedLen(ts string, fi *imagetypes.FrameInfo) int {
	n := int(fi.Height) * int(fi.Width) * int(fi.SamplesPerPixel) * ((int(fi.BitsAllocated) + 7) / 8)
	if ts == "rle" && n%2 == 1 {
		n++
	}
	return n
}

func runC10(args []string) error {
	fs := flag.NewFlagSet("c10", flag.ExitOnError)
	scnPath := fs.String("scn", "", "TLC-generated histories (ndjson)")
	outPath := fs.String("out", "", "trace output")
	seed := fs.Int64("seed", 1, "seed")
	perHist := fs.Int("per", 2, "number of (syntax, FrameInfo) pairs each history is executed on")
	fs.Parse(args)
	t, err := NewTrace(*outPath)
	if err != nil {
		return err
	}
	defer t.Close()
	r := rand.New(rand.NewSource(*seed))

	type target struct {
		ts     string
		v      infoVariant
		fi     *imagetypes.FrameInfo
		frames map[string][]byte
		stream map[string][]byte // solo encodings keyed frame|params, input of decode operations
	}
	var targets []*target
	scn := 0
	// 1. solo executions first: they define the memo F before any history has touched the objects
	for _, ts := range allTS {
		for _, v := range tsVariants[ts] {
			rows, cols := 9+r.Intn(8), 10+r.Intn(9)
			if len(targets)%2 == 1 { // every other target: frames of several KiB (rate / layer budgets stop being clamped to their floor)
				rows, cols = 44+r.Intn(20), 40+r.Intn(24)
			}
			fi := frameInfo(rows, cols, v.ba, v.bs, v.spp, v.pixrep, 0)
			tg := &target{ts: ts, v: v, fi: fi, frames: c10Frames(r, fi), stream: map[string][]byte{}}
			targets = append(targets, tg)
			c, err := getCodec(ts)
			if err != nil {
				return err
			}
			scn++
			t.Reset(scn, "prop", "C10", "kind", "solo")
			for _, f := range []string{"A", "B", "C"} {
				for _, p := range []string{"nil", "def", "alt"} {
					ps := c10Params(ts, p)
					src := append([]byte{}, tg.frames[f]...)
					enc := NewPD(fi)
					var e error
					pan, site, class := protect(func() { e = c.Encode(NewPD(fi, src), enc, ps.build(ts, c)) })
					es := errStr(e)
					if pan {
						es = "panic: " + site + ": " + class
					}
					var st []byte
					if len(enc.frames) == 1 {
						st = enc.frames[0]
					} else if es == "" {
						es = fmt.Sprintf("frame count %d", len(enc.frames))
					}
					t.Event("solo", "ts", ts, "v", v.String(), "op", "enc", "f", f, "p", p, "sha", sha(st), "len", len(st), "srcsha", sha(tg.frames[f]), "err", es)
					tg.stream[f+"|"+p] = st
				}
			}
			for _, f := range []string{"A", "B", "C"} {
				for _, p := range []string{"nil", "def", "alt"} {
					ps := c10DecParams(p)
					dec := NewPD(fi)
					var e error
					pan, site, class := protect(func() { e = c.Decode(NewPD(fi, append([]byte{}, tg.stream[f+"|"+p]...)), dec, ps.build(ts, c)) })
					es := errStr(e)
					if pan {
						es = "panic: " + site + ": " + class
					}
					var o []byte
					if len(dec.frames) == 1 {
						o = dec.frames[0]
					} else if es == "" {
						es = fmt.Sprintf("frame count %d", len(dec.frames))
					}
					ll := 0
					if losslessTS[ts] {
						ll = 1
					}
					// the contractual decoded frame of an odd-length native frame carries one zero pad byte (RLE): the source is
					// padded the same way before it is compared
					want := tg.frames[f]
					if wl := expectedDecodedLen(ts, fi); wl == len(want)+1 {
						want = append(append([]byte{}, want...), 0)
					}
					t.Event("solo", "ts", ts, "v", v.String(), "op", "dec", "f", f, "p", p, "sha", sha(o), "len", len(o), "srcsha", sha(want),
						"wantlen", expectedDecodedLen(ts, fi), "lossless", ll, "err", es)
				}
			}
		}
	}
	nSolo := t.n
	// 2. histories
	var hists []c10Hist
	if *scnPath != "" {
		f, err := os.Open(*scnPath)
		if err != nil {
			return err
		}
		sc := bufio.NewScanner(f)
		sc.Buffer(make([]byte, 1<<20), 1<<24)
		for sc.Scan() {
			var h c10Hist
			if err := json.Unmarshal(sc.Bytes(), &h); err != nil {
				return err
			}
			hists = append(hists, h)
		}
		f.Close()
	}
	calls := 0
	for hi, h := range hists {
		for k := 0; k < *perHist; k++ {
			tg := targets[(hi*(*perHist)+k*7+int(*seed))%len(targets)]
			c, _ := getCodec(tg.ts)
			scn++
			t.Reset(scn, "prop", "C10", "kind", "hist", "ts", tg.ts, "v", tg.v.String())
			for _, op := range h.Ops {
				ps := c10Params(tg.ts, op.Params)
				if op.Op == "dec" {
					ps = c10DecParams(op.Params)
				}
				var ins [][]byte
				for _, f := range op.Frames {
					if op.Op == "enc" {
						ins = append(ins, append([]byte{}, tg.frames[f]...))
					} else {
						ins = append(ins, append([]byte{}, tg.stream[f+"|"+op.Params]...))
					}
				}
				before := shas(ins)
				dst := NewPD(tg.fi)
				var e error
				pan, site, class := protect(func() {
					if op.Op == "enc" {
						e = c.Encode(NewPD(tg.fi, ins...), dst, ps.build(tg.ts, c))
					} else {
						e = c.Decode(NewPD(tg.fi, ins...), dst, ps.build(tg.ts, c))
					}
				})
				es := errStr(e)
				if pan {
					es = "panic: " + site + ": " + class
				}
				calls++
				t.Event("call", "ts", tg.ts, "v", tg.v.String(), "op", op.Op, "frames", op.Frames, "p", op.Params,
					"before", before, "after", shas(ins), "outsha", shas(dst.frames), "outlen", lens(dst.frames), "err", es)
			}
		}
	}
	// 3. low-level objects reused across calls: one jpeg2000.Decoder decoding unrelated streams
	nObj := j2kObjectHistories(t, r, &scn)
	fmt.Printf("c10: scenarios=%d solo_events=%d histories=%d calls=%d objcalls=%d events=%d\n", scn, nSolo, len(hists), calls, nObj, t.n)
	return nil
}

// j2kObjectHistories: streams of unrelated images (different sizes, component counts, with and
// without colour transform, Part-2 MCT bindings, ROI) decoded on ONE jpeg2000.Decoder in every
// order of pairs and triples; the memo is the output of a fresh decoder.  Also one jpeg2000.Encoder
// object encoding several frames.
func j2kObjectHistories(t *TraceWriter, r *rand.Rand, scn *int) int {
	type img struct {
		name   string
		stream []byte
	}
	var imgs []img
	add := func(name string, ep *jpeg2000.EncodeParams, pix []byte) {
		st, err := jpeg2000.NewEncoder(ep).Encode(pix)
		if err == nil {
			imgs = append(imgs, img{name, st})
		}
	}
	mk := func(w, h, c, p int) []byte {
		return packSamples(genSamples(r, "noise", w, h, c, (1<<p)-2), p)
	}
	e1 := jpeg2000.DefaultEncodeParams(16, 12, 1, 8, false)
	add("gray8", e1, mk(16, 12, 1, 8))
	e2 := jpeg2000.DefaultEncodeParams(11, 9, 3, 8, false)
	add("rgb8rct", e2, mk(11, 9, 3, 8))
	e3 := jpeg2000.DefaultEncodeParams(11, 9, 3, 8, false)
	e3.EnableMCT = false
	add("rgb8nomct", e3, mk(11, 9, 3, 8))
	e4 := jpeg2000.DefaultEncodeParams(13, 10, 2, 8, false)
	e4.MCTBindings = []jpeg2000.MCTBindingParams{{AssocType: 2, ComponentIDs: []uint16{0, 1}, Matrix: [][]float64{{1, 0}, {0, 1}},
		Inverse: [][]float64{{1, 0}, {0, 1}}, Offsets: []int32{5, -5}, ElementType: 1, MCOPrecision: 0}}
	add("bind2", e4, mk(13, 10, 2, 8))
	e5 := jpeg2000.DefaultEncodeParams(20, 20, 1, 12, false)
	e5.ROI = &jpeg2000.ROIParams{X0: 4, Y0: 4, Width: 8, Height: 8, Shift: 3}
	add("roi12", e5, mk(20, 20, 1, 12))
	e6 := jpeg2000.DefaultEncodeParams(9, 14, 3, 8, false)
	e6.Lossless = false
	add("rgb8ict", e6, mk(9, 14, 3, 8))
	e7 := jpeg2000.DefaultEncodeParams(8, 8, 1, 16, true)
	add("s16", e7, mk(8, 8, 1, 15))

	decode := func(d *jpeg2000.Decoder, st []byte) (string, int, string) {
		var err error
		var out []byte
		pan, site, class := protect(func() {
			err = d.Decode(st)
			if err == nil {
				out = d.GetPixelData()
			}
		})
		es := errStr(err)
		if pan {
			es = "panic: " + site + ": " + class
		}
		return sha(out), len(out), es
	}
	*scn++
	t.Reset(*scn, "prop", "C10", "kind", "solo")
	for _, im := range imgs {
		s, n, es := decode(jpeg2000.NewDecoder(), im.stream)
		t.Event("solo", "ts", "j2kdec", "v", "-", "op", "dec", "f", im.name, "p", "nil", "sha", s, "len", n, "srcsha", "", "wantlen", n, "lossless", 0, "err", es)
	}
	n := 0
	run := func(order []int) {
		*scn++
		t.Reset(*scn, "prop", "C10", "kind", "hist", "ts", "j2kdec", "v", "-")
		d := jpeg2000.NewDecoder()
		for _, i := range order {
			before := sha(imgs[i].stream)
			s, ln, es := decode(d, imgs[i].stream)
			n++
			t.Event("call", "ts", "j2kdec", "v", "-", "op", "dec", "frames", []string{imgs[i].name}, "p", "nil",
				"before", []string{before}, "after", []string{sha(imgs[i].stream)}, "outsha", []string{s}, "outlen", []int{ln}, "err", es)
		}
	}
	for i := range imgs {
		for j := range imgs {
			run([]int{i, j})
			if (i+j)%3 == 0 {
				run([]int{i, j, i})
				run([]int{j, i, (i + 1) % len(imgs), j})
			}
		}
	}
	return n
}
