package main

import (
	"fmt"
	"math/rand"
)

func init() { register("c12", runC12) }

// c12: irreversible (9-7) single-tile round trips without a rate target; bound computed by TLC from QCD.
func runC12(args []string) error {
	f := parseRT("c12", args)
	t, err := NewTrace(f.out)
	if err != nil {
		return err
	}
	defer t.Close()
	r := rand.New(rand.NewSource(f.seed))
	scn := 0
	one := func(c rtCase) {
		scn++
		t.Reset(scn)
		runRT(t, c, genJ2KSamples(r, c.Cls, c.W, c.H, c.C, c.P), rtOpts{logStream: true})
	}
	classes := []string{"noise", "smooth", "extremes", "sextremes", "twolevel", "const", "checker", "sparse", "ramp"}
	mk := func(i int) rtCase {
		c := rtCase{API: "j2k", Lossless: false, Layers: 1}
		c.P = []int{8, 12, 16}[i%3]
		c.Signed = (i/3)%2 == 1
		c.C = []int{1, 3}[(i/6)%2]
		c.MCT = true
		c.Quality = 1 + (i*7)%100
		c.Levels = (i / 2) % 7
		cb := []int{16, 32, 64}[r.Intn(3)]
		c.CBW, c.CBH = cb, cb
		c.W, c.H = 1+r.Intn(f.maxdim), 1+r.Intn(f.maxdim)
		switch r.Intn(6) {
		case 0:
			c.W = 1 + r.Intn(4)
		case 1:
			c.H = 1 + r.Intn(4)
		}
		c.Cls = classes[r.Intn(len(classes))]
		return c
	}
	for i := 0; i < f.n; i++ {
		one(mk(i))
	}
	// every quality once, every level count with small images (smaller than the filter support)
	for q := 1; q <= 100; q++ {
		c := mk(q)
		c.Quality = q
		c.W, c.H = 1+r.Intn(12), 1+r.Intn(12)
		one(c)
	}
	// 16 bits, highest qualities, deep decompositions: the smallest steps the quality mapping produces
	for q := 94; q <= 100; q++ {
		for _, lv := range []int{3, 4, 5, 6} {
			c := mk(q + lv)
			c.P, c.Quality, c.Levels = 16, q, lv
			c.W, c.H = 8+r.Intn(f.maxdim), 8+r.Intn(f.maxdim)
			c.Cls = []string{"sparse", "smooth", "ramp", "sparse"}[(q+lv)%4]
			one(c)
		}
	}
	if f.big {
		for i := 0; i < 30; i++ {
			c := mk(i)
			c.W, c.H = 100+r.Intn(412), 100+r.Intn(412)
			c.Cls = "noise"
			one(c)
		}
	}
	fmt.Printf("c12: scenarios=%d events=%d\n", scn, t.n)
	return nil
}
