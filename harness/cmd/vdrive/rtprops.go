package main

import (
	"flag"
	"fmt"
	"math/rand"
)

// Drivers for the round-trip properties decided by ContractTrace.tla:
//   c02 (JPEG lossless + SV1), c03 (JPEG-LS lossless), c07 (JPEG-LS near-lossless).

func init() {
	register("c02", runC02)
	register("c03", runC03)
	register("c07", runC07)
}

type rtFlags struct {
	out     string
	seed    int64
	n       int
	maxdim  int
	exh     int // exhaustive level
	streams bool
	big     bool
}

func parseRT(name string, args []string) rtFlags {
	var f rtFlags
	fs := flag.NewFlagSet(name, flag.ExitOnError)
	fs.StringVar(&f.out, "out", "", "trace output")
	fs.Int64Var(&f.seed, "seed", 1, "seed")
	fs.IntVar(&f.n, "n", 1000, "seeded cases")
	fs.IntVar(&f.maxdim, "maxdim", 32, "max width/height of seeded cases")
	fs.IntVar(&f.exh, "exh", 1, "exhaustive level (0 none, 1 quick, 2 thorough)")
	fs.BoolVar(&f.streams, "streams", false, "log encoded bytes")
	fs.BoolVar(&f.big, "big", false, "include large / extreme geometries")
	fs.Parse(args)
	return f
}

// odometer enumeration of all images with n samples over 0..maxval
func allImages(n, maxval int, f func([]int)) {
	s := make([]int, n)
	for {
		f(s)
		i := 0
		for i < n {
			s[i]++
			if s[i] <= maxval {
				break
			}
			s[i] = 0
			i++
		}
		if i == n {
			return
		}
	}
}

func pickSize(r *rand.Rand, maxdim int) (int, int) {
	w, h := 1+r.Intn(maxdim), 1+r.Intn(maxdim)
	switch r.Intn(10) {
	case 0:
		w = 1
	case 1:
		h = 1
	case 2:
		w, h = 1+r.Intn(4), 1+r.Intn(4)
	case 3:
		w = 1
		h = 2 + r.Intn(maxdim)
	}
	return w, h
}

// huffDeep: one-row content whose successive differences have Fibonacci-distributed Huffman
// categories 0..16 (forces an unrestricted code tree deeper than 16, and the difference -32768).
func huffDeep(r *rand.Rand, n int) []int {
	counts := make([]int, 17)
	a, b := 1, 1
	for k := 16; k >= 0; k-- {
		counts[k] = a
		a, b = b, a+b
	}
	var cats []int
	for k, c := range counts {
		for i := 0; i < c; i++ {
			cats = append(cats, k)
		}
	}
	r.Shuffle(len(cats), func(i, j int) { cats[i], cats[j] = cats[j], cats[i] })
	s := make([]int, n)
	v := 32768
	for i := 0; i < n; i++ {
		k := cats[i%len(cats)]
		d := 0
		switch {
		case k == 16:
			d = -32768
		case k > 0:
			d = (1 << (k - 1)) + r.Intn(1<<(k-1))
			if r.Intn(2) == 0 {
				d = -d
			}
		}
		v = (v + d) & 0xFFFF
		s[i] = v
	}
	return s
}

func runC02(args []string) error {
	f := parseRT("c02", args)
	t, err := NewTrace(f.out)
	if err != nil {
		return err
	}
	defer t.Close()
	scn := 0
	one := func(c rtCase, src []int) {
		scn++
		t.Reset(scn, "prop", "C02", "rel", "identity")
		runRT(t, c, src, rtOpts{logStream: f.streams})
	}
	apis := func(f func(api string, pred int)) {
		for pred := 0; pred <= 7; pred++ {
			f("jpegll", pred)
		}
		f("sv1", 1)
	}
	// exhaustive small images at P=2 (and P=3 for thorough)
	if f.exh >= 1 {
		sizes := [][2]int{{1, 1}, {2, 1}, {1, 2}, {2, 2}, {3, 1}, {1, 3}}
		if f.exh >= 2 {
			sizes = append(sizes, [2]int{3, 2}, [2]int{2, 3})
		}
		for _, wh := range sizes {
			allImages(wh[0]*wh[1], 3, func(s []int) {
				src := append([]int{}, s...)
				apis(func(api string, pred int) {
					one(rtCase{API: api, W: wh[0], H: wh[1], C: 1, P: 2, Pred: pred, Cls: "exh"}, src)
				})
			})
		}
		if f.exh >= 2 {
			for _, wh := range [][2]int{{2, 1}, {1, 2}, {2, 2}} {
				allImages(wh[0]*wh[1], 7, func(s []int) {
					src := append([]int{}, s...)
					apis(func(api string, pred int) {
						one(rtCase{API: api, W: wh[0], H: wh[1], C: 1, P: 3, Pred: pred, Cls: "exh"}, src)
					})
				})
			}
		}
	}
	nExh := scn
	r := rand.New(rand.NewSource(f.seed))
	classes := []string{"noise", "twolevel", "alt", "const", "ramp", "checker", "extremes", "smooth", "sparse", "bigjump", "runs", "lownoise"}
	for i := 0; i < f.n; i++ {
		p := 2 + i%15 // every precision is visited
		c := []int{1, 3}[r.Intn(2)]
		w, h := pickSize(r, f.maxdim)
		cls := classes[r.Intn(len(classes))]
		pred := r.Intn(9)
		api := "jpegll"
		if pred == 8 {
			api, pred = "sv1", 1
		}
		one(rtCase{API: api, W: w, H: h, C: c, P: p, Pred: pred, Cls: cls}, genSamples(r, cls, w, h, c, (1<<p)-1))
	}
	// deep Huffman alphabets (category 16, unrestricted depth > 16)
	nDeep := 2
	if f.exh >= 2 {
		nDeep = 12
	}
	for i := 0; i < nDeep; i++ {
		n := 4181 + r.Intn(600)
		for _, ap := range []struct {
			api  string
			pred int
		}{{"jpegll", 1}, {"sv1", 1}, {"jpegll", 0}} {
			one(rtCase{API: ap.api, W: n, H: 1, C: 1, P: 16, Pred: ap.pred, Cls: "huffdeep"}, huffDeep(r, n))
		}
	}
	if f.big {
		for _, g := range [][2]int{{512, 512}, {65535, 1}, {1, 65535}, {300, 411}} {
			for _, p := range []int{8, 12, 16} {
				cls := classes[r.Intn(len(classes))]
				pred := 1 + r.Intn(7)
				one(rtCase{API: "jpegll", W: g[0], H: g[1], C: 1, P: p, Pred: pred, Cls: cls}, genSamples(r, cls, g[0], g[1], 1, (1<<p)-1))
			}
		}
	}
	fmt.Printf("c02: scenarios=%d exhaustive=%d events=%d\n", scn, nExh, t.n)
	return nil
}

func runC03(args []string) error {
	f := parseRT("c03", args)
	t, err := NewTrace(f.out)
	if err != nil {
		return err
	}
	defer t.Close()
	scn := 0
	one := func(c rtCase, src []int) {
		scn++
		t.Reset(scn, "prop", "C03", "rel", "identity")
		runRT(t, c, src, rtOpts{logStream: f.streams})
	}
	if f.exh >= 1 {
		sizes := [][2]int{{1, 1}, {2, 1}, {1, 2}, {2, 2}, {3, 1}, {1, 3}, {3, 2}, {2, 3}}
		for _, wh := range sizes {
			allImages(wh[0]*wh[1], 3, func(s []int) {
				one(rtCase{API: "jls", W: wh[0], H: wh[1], C: 1, P: 2, Cls: "exh"}, append([]int{}, s...))
			})
		}
		if f.exh >= 2 {
			allImages(9, 3, func(s []int) {
				one(rtCase{API: "jls", W: 3, H: 3, C: 1, P: 2, Cls: "exh"}, append([]int{}, s...))
			})
			allImages(4, 15, func(s []int) {
				one(rtCase{API: "jls", W: 2, H: 2, C: 1, P: 4, Cls: "exh"}, append([]int{}, s...))
			})
		} else {
			allImages(2, 15, func(s []int) {
				one(rtCase{API: "jls", W: 2, H: 1, C: 1, P: 4, Cls: "exh"}, append([]int{}, s...))
				one(rtCase{API: "jls", W: 1, H: 2, C: 1, P: 4, Cls: "exh"}, append([]int{}, s...))
			})
		}
		allImages(1, 3, func(s []int) {}) // keep odometer trivially exercised
	}
	nExh := scn
	r := rand.New(rand.NewSource(f.seed))
	classes := []string{"noise", "twolevel", "runs", "runs_eol", "ramp", "const", "extremes", "smooth", "sparse", "bigjump", "rowconst", "lownoise", "alt"}
	for i := 0; i < f.n; i++ {
		p := 2 + i%15
		c := []int{1, 3}[r.Intn(2)]
		w, h := pickSize(r, f.maxdim)
		cls := classes[r.Intn(len(classes))]
		one(rtCase{API: "jls", W: w, H: h, C: c, P: p, Cls: cls}, genSamples(r, cls, w, h, c, (1<<p)-1))
	}
	if f.big {
		for _, g := range [][2]int{{512, 512}, {65535, 1}, {1, 4099}, {257, 300}} {
			for _, p := range []int{8, 12, 16} {
				cls := classes[r.Intn(len(classes))]
				one(rtCase{API: "jls", W: g[0], H: g[1], C: 1, P: p, Cls: cls}, genSamples(r, cls, g[0], g[1], 1, (1<<p)-1))
			}
		}
	}
	fmt.Printf("c03: scenarios=%d exhaustive=%d events=%d\n", scn, nExh, t.n)
	return nil
}

// content for the near-lossless bound: NEAR-aware classes
var nearClasses = []string{"noise", "edges", "ramp2n1", "ramp2n", "slowramp", "spikes", "runs", "twolevel", "smooth", "const", "lownoise", "bigjump"}

func genNearSamples(r *rand.Rand, class string, w, h, c, maxval, near int) []int {
	n := w * h * c
	s := make([]int, n)
	switch class {
	case "edges": // samples within NEAR of 0 and of MAXVAL (reconstruction clamp)
		for i := range s {
			d := r.Intn(min(maxval, near+1) + 1)
			if r.Intn(2) == 0 {
				s[i] = d
			} else {
				s[i] = maxval - d
			}
		}
	case "ramp2n1", "ramp2n", "slowramp":
		step := 2*near + 1
		if class == "ramp2n" {
			step = max(1, 2*near)
		}
		if class == "slowramp" {
			step = 1 + r.Intn(max(1, near))
		}
		for y := 0; y < h; y++ {
			base := r.Intn(maxval + 1)
			for x := 0; x < w; x++ {
				for k := 0; k < c; k++ {
					s[(y*w+x)*c+k] = (base + x*step + k) % (maxval + 1)
				}
			}
		}
	case "spikes": // dark noisy background with saturated samples
		for i := range s {
			s[i] = r.Intn(min(maxval, 2*near+3) + 1)
			if r.Intn(11) == 0 {
				s[i] = maxval
			}
			if r.Intn(23) == 0 {
				s[i] = maxval - r.Intn(min(maxval, near+1)+1)
			}
		}
	default:
		return genSamples(r, class, w, h, c, maxval)
	}
	return s
}

func maxNear(p int) int {
	m := ((1 << p) - 1) / 2
	if m > 255 {
		m = 255
	}
	return m
}

func runC07(args []string) error {
	f := parseRT("c07", args)
	t, err := NewTrace(f.out)
	if err != nil {
		return err
	}
	defer t.Close()
	scn := 0
	one := func(c rtCase, src []int) {
		scn++
		t.Reset(scn, "prop", "C07", "rel", "near")
		runRT(t, c, src, rtOpts{logStream: f.streams})
	}
	r := rand.New(rand.NewSource(f.seed))
	// every NEAR of every P is visited once (small image), emphasised NEARs more often
	for p := 2; p <= 16; p++ {
		stride := 1
		if f.exh < 2 && maxNear(p) > 40 {
			stride = 5
		}
		off := 0
		if stride > 1 {
			off = r.Intn(stride)
		}
		for near := 0; near <= maxNear(p); near++ {
			if near > 3 && near != maxNear(p) && (near+off)%stride != 0 {
				continue
			}
			cls := nearClasses[r.Intn(len(nearClasses))]
			w, h := 2+r.Intn(14), 2+r.Intn(10)
			c := []int{1, 3}[r.Intn(2)]
			one(rtCase{API: "jlsnear", W: w, H: h, C: c, P: p, Near: near, Cls: cls}, genNearSamples(r, cls, w, h, c, (1<<p)-1, near))
		}
	}
	nSweep := scn
	for i := 0; i < f.n; i++ {
		p := 2 + i%15
		mn := maxNear(p)
		near := []int{0, 1, 2, 3, mn, r.Intn(mn + 1), 7, 8, 25}[r.Intn(9)]
		if near > mn {
			near = mn
		}
		c := []int{1, 3}[r.Intn(2)]
		w, h := pickSize(r, f.maxdim)
		cls := nearClasses[r.Intn(len(nearClasses))]
		one(rtCase{API: "jlsnear", W: w, H: h, C: c, P: p, Near: near, Cls: cls}, genNearSamples(r, cls, w, h, c, (1<<p)-1, near))
	}
	// exhaustive tiny images
	if f.exh >= 1 {
		for _, wh := range [][2]int{{2, 2}, {3, 1}, {1, 3}, {3, 2}} {
			for near := 0; near <= 1; near++ {
				allImages(wh[0]*wh[1], 3, func(s []int) {
					one(rtCase{API: "jlsnear", W: wh[0], H: wh[1], C: 1, P: 2, Near: near, Cls: "exh"}, append([]int{}, s...))
				})
			}
		}
		if f.exh >= 2 {
			for near := 0; near <= 3; near++ {
				allImages(4, 7, func(s []int) {
					one(rtCase{API: "jlsnear", W: 2, H: 2, C: 1, P: 3, Near: near, Cls: "exh"}, append([]int{}, s...))
				})
			}
		}
	}
	if f.big {
		for _, g := range [][2]int{{512, 512}, {300, 200}} {
			for _, p := range []int{8, 12, 16} {
				for _, near := range []int{1, 3, maxNear(p)} {
					cls := nearClasses[r.Intn(len(nearClasses))]
					one(rtCase{API: "jlsnear", W: g[0], H: g[1], C: 1, P: p, Near: near, Cls: cls}, genNearSamples(r, cls, g[0], g[1], 1, (1<<p)-1, near))
				}
			}
		}
	}
	fmt.Printf("c07: scenarios=%d exhaustive=%d sweep=%d events=%d\n", scn, scn-nSweep-f.n, nSweep, t.n)
	return nil
}
