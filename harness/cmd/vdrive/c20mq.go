package main

import (
	"math/rand"

	"github.com/cocosip/go-dicom-codecs/jpeg2000/mqc"
)

// mqRecord: one (decision, context) sequence through the real MQEncoder / MQDecoder with the
// registers after every step (read through the verif hook jpeg2000/mqc/verif_export.go).
func mqRecord(t *TraceWriter, r *rand.Rand, n, nctx, bias int) {
	d := make([]int, n)
	x := make([]int, n)
	// per-context bias: context c is skewed towards (c%2) with probability bias%
	for i := 0; i < n; i++ {
		x[i] = r.Intn(nctx)
		fav := x[i] % 2
		if r.Intn(100) < bias {
			d[i] = fav
		} else {
			d[i] = 1 - fav
		}
	}
	mqRun(t, nctx, bias, d, x)
}

// mqRecordFixed: the sequence of length n over 2 contexts encoded by the 2n bits of code
func mqRecordFixed(t *TraceWriter, n, code int) {
	d := make([]int, n)
	x := make([]int, n)
	for i := 0; i < n; i++ {
		d[i] = (code >> (2 * i)) & 1
		x[i] = (code >> (2*i + 1)) & 1
	}
	mqRun(t, 2, -1, d, x)
}

func mqRun(t *TraceWriter, nctx, bias int, d, x []int) {
	n := len(d)
	ea, ec, ect, ebp, ei, em := make([]int, n), make([]int, n), make([]int, n), make([]int, n), make([]int, n), make([]int, n)
	enc := mqc.NewMQEncoder(nctx)
	for i := 0; i < n; i++ {
		enc.Encode(d[i], x[i])
		a, c, ct, bp := enc.VerifState()
		st := enc.GetContextState(x[i])
		ea[i], ec[i], ect[i], ebp[i], ei[i], em[i] = int(a), int(c), ct, bp, int(st&0x7F), int(st>>7)
	}
	out := append([]byte{}, enc.Flush()...)
	dd, da, dch, dcl, dct, di, dm := make([]int, n), make([]int, n), make([]int, n), make([]int, n), make([]int, n), make([]int, n), make([]int, n)
	dec := mqc.NewMQDecoder(out, nctx)
	for i := 0; i < n; i++ {
		dd[i] = dec.Decode(x[i])
		a, c, ct, _ := dec.VerifState()
		st := dec.GetContextState(x[i])
		da[i], dch[i], dcl[i], dct[i], di[i], dm[i] = int(a), int(c>>16), int(c&0xFFFF), ct, int(st&0x7F), int(st>>7)
	}
	t.Event("mq", "n", nctx, "bias", bias, "d", d, "x", x, "ea", ea, "ec", ec, "ect", ect, "ebp", ebp, "ei", ei, "em", em,
		"out", out, "dd", dd, "da", da, "dch", dch, "dcl", dcl, "dct", dct, "di", di, "dm", dm)
}
