package main

import (
	"bufio"
	"encoding/json"
	"flag"
	"fmt"
	"math/rand"
	"os"

	"github.com/cocosip/go-dicom/pkg/dicom/transfer"
	"github.com/cocosip/go-dicom/pkg/imaging/codec"
	"github.com/cocosip/go-dicom/pkg/imaging/imagetypes"

	_ "github.com/cocosip/go-dicom-codecs/rle"
)

func init() { register("c01", runC01) }

type c01Scn struct {
	Bytes []int `json:"bytes"`
}

func rleInfoJSON(fi *imagetypes.FrameInfo) json.RawMessage {
	return json.RawMessage(fmt.Sprintf(`{"rows":%d,"cols":%d,"ba":%d,"spp":%d,"planar":%d}`,
		fi.Height, fi.Width, fi.BitsAllocated, fi.SamplesPerPixel, fi.PlanarConfiguration))
}

const digestThreshold = 1 << 17 // frames above this many bytes are compared by digest

// rleRoundTrip records one Encode and one Decode of the registered RLE codec.
func rleRoundTrip(t *TraceWriter, c codec.Codec, fi *imagetypes.FrameInfo, src []byte, cls string) {
	in := NewPD(fi, src)
	enc := NewPD(fi)
	var err error
	pan, site, class := protect(func() { err = c.Encode(in, enc, nil) })
	big := len(src) > digestThreshold
	info := rleInfoJSON(fi)
	var stream []byte
	if len(enc.frames) == 1 {
		stream = enc.frames[0]
	}
	es := errStr(err)
	if pan {
		es = "panic: " + site + ": " + class
	} else if err == nil && len(enc.frames) != 1 {
		es = fmt.Sprintf("frame count %d", len(enc.frames))
	}
	if big {
		head := stream
		if len(head) > 64 {
			head = head[:64]
		}
		t.Event("encd", "info", info, "cls", cls, "len", len(stream), "head", head, "err", es)
	} else {
		t.Event("enc", "info", info, "cls", cls, "src", src, "stream", stream, "err", es)
	}
	if es != "" {
		return
	}
	dec := NewPD(fi)
	pan, site, class = protect(func() { err = c.Decode(NewPD(fi, stream), dec, nil) })
	var out []byte
	if len(dec.frames) == 1 {
		out = dec.frames[0]
	}
	es = errStr(err)
	if pan {
		es = "panic: " + site + ": " + class
	} else if err == nil && len(dec.frames) != 1 {
		es = fmt.Sprintf("frame count %d", len(dec.frames))
	}
	if big {
		want := src
		if len(want)%2 == 1 {
			want = append(append([]byte{}, want...), 0)
		}
		t.Event("decd", "info", info, "outsha", sha(out), "wantsha", sha(want), "err", es)
	} else {
		t.Event("dec", "info", info, "out", out, "err", es)
	}
}

type rleDesc struct{ ba, spp, planar, rows, cols int }

// every frame description whose native byte count is n
func rleDescsFor(n int) []rleDesc {
	var ds []rleDesc
	for _, ba := range []int{8, 16, 32} {
		for _, spp := range []int{1, 3} {
			unit := ba / 8 * spp
			if n%unit != 0 {
				continue
			}
			px := n / unit
			for rows := 1; rows <= px; rows++ {
				if px%rows != 0 {
					continue
				}
				for planar := 0; planar <= 1; planar++ {
					ds = append(ds, rleDesc{ba, spp, planar, rows, px / rows})
				}
			}
		}
	}
	return ds
}

func runC01(args []string) error {
	fs := flag.NewFlagSet("c01", flag.ExitOnError)
	scnPath := fs.String("scn", "", "TLC-generated behaviours (ndjson)")
	outPath := fs.String("out", "", "trace output")
	seed := fs.Int64("seed", 1, "seed")
	nSeeded := fs.Int("seeded", 2000, "number of seeded frames")
	maxDim := fs.Int("maxdim", 64, "max rows/cols of seeded frames")
	giants := fs.Bool("giants", false, "1024x1024, 65535x1, 1x65535 in digest mode")
	fs.Parse(args)

	c, ok := codec.GetGlobalRegistry().GetCodec(transfer.RLELossless)
	if !ok {
		return fmt.Errorf("RLE codec not registered")
	}
	t, err := NewTrace(*outPath)
	if err != nil {
		return err
	}
	defer t.Close()
	scn := 0
	// (i) exhaustive: every TLC behaviour x every matching frame description
	if *scnPath != "" {
		f, err := os.Open(*scnPath)
		if err != nil {
			return err
		}
		sc := bufio.NewScanner(f)
		sc.Buffer(make([]byte, 1<<20), 1<<26)
		for sc.Scan() {
			var s c01Scn
			if err := json.Unmarshal(sc.Bytes(), &s); err != nil {
				return err
			}
			src := make([]byte, len(s.Bytes))
			for i, v := range s.Bytes {
				src[i] = byte(v)
			}
			for _, d := range rleDescsFor(len(src)) {
				scn++
				t.Reset(scn)
				rleRoundTrip(t, c, frameInfo(d.rows, d.cols, d.ba, d.ba, d.spp, 0, d.planar), src, "tlc")
			}
		}
		f.Close()
	}
	nExh := scn
	// (ii) seeded frames
	r := rand.New(rand.NewSource(*seed))
	for i := 0; i < *nSeeded; i++ {
		ba := []int{8, 16, 32}[r.Intn(3)]
		spp := []int{1, 3}[r.Intn(2)]
		planar := r.Intn(2)
		rows, cols := 1+r.Intn(*maxDim), 1+r.Intn(*maxDim)
		switch r.Intn(6) {
		case 0:
			rows = 1
		case 1:
			cols = 1
		case 2: // plane length right at a split point
			L := rleLens[r.Intn(len(rleLens))] + r.Intn(3) - 1
			if L < 1 {
				L = 1
			}
			rows, cols = 1, L
			if L%3 == 0 && r.Intn(2) == 0 {
				rows, cols = 3, L/3
			}
		}
		n := rows * cols * spp * ba / 8
		cls := byteClasses[r.Intn(len(byteClasses))]
		var src []byte
		if ba > 8 && r.Intn(2) == 0 {
			// build content per byte plane so that each plane sees the class (runs survive the interleave)
			planes := spp * ba / 8
			px := rows * cols
			src = make([]byte, n)
			fi := frameInfo(rows, cols, ba, ba, spp, 0, planar)
			for s := 0; s < planes; s++ {
				pb := genBytes(r, cls, px)
				for p := 0; p < px; p++ {
					src[planeIndex(fi, s, p)] = pb[p]
				}
			}
			cls += "/perplane"
		} else {
			src = genBytes(r, cls, n)
		}
		scn++
		t.Reset(scn)
		rleRoundTrip(t, c, frameInfo(rows, cols, ba, ba, spp, 0, planar), src, cls)
	}
	// (iii) giants, digest mode
	if *giants {
		for _, g := range []rleDesc{{8, 1, 0, 1024, 1024}, {16, 3, 0, 1024, 1024}, {8, 1, 0, 65535, 1}, {16, 1, 0, 1, 65535}, {8, 3, 1, 1, 65535}, {32, 3, 1, 301, 299}} {
			for _, cls := range []string{"noise", "runs_at", "lits_at"} {
				n := g.rows * g.cols * g.spp * g.ba / 8
				scn++
				t.Reset(scn)
				rleRoundTrip(t, c, frameInfo(g.rows, g.cols, g.ba, g.ba, g.spp, 0, g.planar), genBytes(r, cls, n), cls)
			}
		}
	}
	fmt.Printf("c01: scenarios=%d exhaustive=%d events=%d\n", scn, nExh, t.n)
	return nil
}

// planeIndex mirrors nothing in the library: it is only used to *construct* content whose byte
// planes have a chosen shape; the oracle for the plane mapping is RleFrame.tla.
func planeIndex(fi *imagetypes.FrameInfo, s, p int) int {
	ba := int(fi.BitsAllocated) / 8
	planes := ba * int(fi.SamplesPerPixel)
	sample, fromMSB := s/ba, s%ba
	lsb := ba - 1 - fromMSB
	if fi.PlanarConfiguration == 0 {
		return p*planes + sample*ba + lsb
	}
	return sample*ba*int(fi.Width)*int(fi.Height) + p*ba + lsb
}
