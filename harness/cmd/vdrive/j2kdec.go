package main

import (
	"encoding/hex"
	"flag"
	"fmt"
	"os"
	"runtime"
	"strings"
	"time"
)

func init() { register("j2kdec", runJ2kDec) }

// j2kdec: decode one JPEG 2000 codestream given as hex (debugging aid): outcome, time, allocation.
func runJ2kDec(args []string) error {
	fs := flag.NewFlagSet("j2kdec", flag.ExitOnError)
	hx := fs.String("hex", "", "codestream as hex, or @file")
	fs.Parse(args)
	h := *hx
	if strings.HasPrefix(h, "@") {
		b, err := os.ReadFile(h[1:])
		if err != nil {
			return err
		}
		h = strings.TrimSpace(string(b))
	}
	st, err := hex.DecodeString(h)
	if err != nil {
		return err
	}
	var ms runtime.MemStats
	runtime.ReadMemStats(&ms)
	a0 := ms.TotalAlloc
	t0 := time.Now()
	var d decResult
	pan, site, class := protect(func() { d = rtDecode(rtCase{API: "j2k"}, st) })
	runtime.ReadMemStats(&ms)
	fmt.Printf("panic=%v %s %s err=%v w=%d h=%d c=%d bytes=%d ms=%d allocMiB=%d peakKiB=%d\n", pan, site, class, d.err, d.w, d.h, d.c, len(d.pix),
		time.Since(t0).Milliseconds(), (ms.TotalAlloc-a0)>>20, procStatusKiB("VmHWM"))
	return nil
}
