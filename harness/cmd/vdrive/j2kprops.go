package main

import (
	"fmt"
	"math/rand"
)

// Drivers for the JPEG 2000 reversible round-trip properties at the package API:
//   c04 (single tile, every configuration), c19 (tiled).

func init() {
	register("c04", runC04)
	register("c19", runC19)
}

var j2kClasses = []string{"noise", "noise", "noise", "extremes", "sextremes", "const", "twolevel", "smooth", "sparse", "rowconst", "checker", "colconst"}

func genJ2KSamples(r *rand.Rand, cls string, w, h, c, p int) []int {
	maxval := (1 << p) - 1
	switch cls {
	case "sextremes": // around the two's-complement extremes 2^(P-1)-1 (max) and 2^(P-1) (min)
		s := make([]int, w*h*c)
		mid := 1 << (p - 1)
		for i := range s {
			s[i] = (mid - 2 + r.Intn(4)) & maxval
			if r.Intn(7) == 0 {
				s[i] = r.Intn(maxval + 1)
			}
		}
		return s
	case "colconst":
		s := make([]int, w*h*c)
		col := make([]int, w*c)
		for i := range col {
			col[i] = r.Intn(maxval + 1)
		}
		for y := 0; y < h; y++ {
			copy(s[y*w*c:], col)
		}
		return s
	}
	return genSamples(r, cls, w, h, c, maxval)
}

var cbSizes = [][2]int{{64, 64}, {32, 32}, {16, 16}, {8, 8}, {4, 4}, {64, 4}, {4, 64}, {16, 4}, {4, 16}, {32, 8}, {8, 32}, {64, 16}, {16, 64}, {32, 64}, {64, 32}, {8, 4}, {4, 8}, {128, 32}, {32, 128}, {256, 16}, {1024, 4}, {4, 1024}}
var precSizes = []int{0, 0, 32, 64, 128, 256}

// randJ2K draws one reversible single-tile configuration; every parameter value of the property's
// domain has positive probability and i drives a round-robin over the most failure-prone axes.
func randJ2K(r *rand.Rand, i int, maxdim int) rtCase {
	c := rtCase{API: "j2k", Lossless: true}
	c.C = 1 + (i % 4)
	c.P = 1 + (i/4)%16
	c.Signed = (i/64)%2 == 1
	c.Levels = r.Intn(7)
	cb := cbSizes[r.Intn(len(cbSizes))]
	c.CBW, c.CBH = cb[0], cb[1]
	c.PrecW = precSizes[r.Intn(len(precSizes))]
	c.PrecH = c.PrecW
	if r.Intn(4) == 0 {
		c.PrecH = precSizes[r.Intn(len(precSizes))]
		if (c.PrecW == 0) != (c.PrecH == 0) {
			c.PrecH = c.PrecW
		}
	}
	c.Prog = r.Intn(5)
	c.Layers = 1 + r.Intn(6)
	if r.Intn(2) == 0 {
		c.Layers = 1
	}
	c.MCT = r.Intn(2) == 0
	c.W, c.H = 1+r.Intn(maxdim), 1+r.Intn(maxdim)
	switch r.Intn(8) {
	case 0:
		c.W = 1 + r.Intn(3)
	case 1:
		c.H = 1 + r.Intn(3)
	case 2: // around multiples of the code-block size
		c.W = max(1, c.CBW*(1+r.Intn(3))+r.Intn(3)-1)
		c.H = max(1, c.CBH*(1+r.Intn(2))+r.Intn(3)-1)
		if c.W > 4*maxdim {
			c.W = 1 + r.Intn(maxdim)
		}
		if c.H > 4*maxdim {
			c.H = 1 + r.Intn(maxdim)
		}
	}
	c.Cls = j2kClasses[r.Intn(len(j2kClasses))]
	return c
}

func relFor(c rtCase) string {
	if c.Signed {
		return "sidentity"
	}
	return "identity"
}

func runC04(args []string) error {
	f := parseRT("c04", args)
	t, err := NewTrace(f.out)
	if err != nil {
		return err
	}
	defer t.Close()
	r := rand.New(rand.NewSource(f.seed))
	scn := 0
	one := func(c rtCase) {
		scn++
		t.Reset(scn, "prop", "C04", "rel", relFor(c))
		runRT(t, c, genJ2KSamples(r, c.Cls, c.W, c.H, c.C, c.P), rtOpts{logStream: f.streams})
	}
	for i := 0; i < f.n; i++ {
		one(randJ2K(r, i, f.maxdim))
	}
	// size grid with default-ish configuration and noise: every w,h in 1..G
	g := 12
	if f.exh >= 2 {
		g = 40
	}
	for w := 1; w <= g; w++ {
		for h := 1; h <= g; h++ {
			if f.exh < 2 && (w+h+int(f.seed))%3 != 0 {
				continue
			}
			c := rtCase{API: "j2k", Lossless: true, W: w, H: h, C: 1 + (w+h)%3, P: []int{8, 12, 16, 5}[(w*7+h)%4], Levels: (w + 2*h) % 7,
				CBW: []int{4, 8, 16, 64}[(w+h)%4], CBH: []int{4, 8, 16, 64}[(w*3+h)%4], Prog: (w + h) % 5, Layers: 1 + (w*h)%3, MCT: w%2 == 0, Cls: "noise"}
			one(c)
		}
	}
	// non-square precincts under the position-driven progressions: the precinct grid then has different periods in x and y,
	// and the image must span several precinct rows/columns (heights and widths beyond the usual size bound)
	nPrec := 24
	if f.exh >= 2 {
		nPrec = 200
	}
	for i := 0; i < nPrec; i++ {
		pw, ph := []int{32, 64, 32, 128, 64, 32}[i%6], []int{64, 32, 128, 32, 128, 256}[i%6]
		c := rtCase{API: "j2k", Lossless: true, C: 1 + i%3, P: []int{8, 12, 5, 16}[i%4], Levels: r.Intn(3), CBW: []int{4, 8, 16, 32}[r.Intn(4)], CBH: []int{4, 8, 16, 32}[r.Intn(4)],
			PrecW: pw, PrecH: ph, Prog: []int{2, 3, 4, 2, 3, 4, 0, 1}[i%8], Layers: 1 + i%2, MCT: i%2 == 0, Cls: "noise"}
		// several precincts along the long axis, few samples along the other (keeps the trace small)
		if pw < ph {
			c.W, c.H = 8+r.Intn(40), ph+1+r.Intn(2*ph)
		} else {
			c.W, c.H = pw+1+r.Intn(2*pw), 8+r.Intn(40)
		}
		if c.W*c.H*c.C > 9000 {
			c.C = 1
		}
		one(c)
	}
	// "lenff": single code-block, no decomposition, noise sized so that the code-block length lands
	// around 2^k-1: the packet header then ends in a full 0xFF byte (stuffing + byte alignment).
	nLen := 6
	if f.exh >= 2 {
		nLen = 40
	}
	for _, wh := range [][2]int{{24, 10}, {10, 24}, {20, 12}, {16, 15}, {15, 16}, {30, 8}, {12, 20}, {8, 30}, {40, 6}, {6, 40}, {48, 5}, {60, 4}} {
		for k := 0; k < nLen; k++ {
			one(rtCase{API: "j2k", Lossless: true, W: wh[0], H: wh[1], C: 1, P: 8, Levels: 0, CBW: 64, CBH: 64, Layers: 1, Cls: "noise"})
		}
	}
	for _, n := range []int{482, 965} {
		for k := 0; k < nLen; k++ {
			w := 8 + r.Intn(24)
			one(rtCase{API: "j2k", Lossless: true, W: w, H: (n + w/2) / w, C: 1, P: 8, Levels: 0, CBW: 64, CBH: 64, Layers: 1, Cls: "noise"})
		}
	}
	if f.big {
		for i := 0; i < 60; i++ {
			c := randJ2K(r, i*7, 600)
			c.Cls = "noise"
			one(c)
		}
	}
	fmt.Printf("c04: scenarios=%d events=%d\n", scn, t.n)
	return nil
}

func runC19(args []string) error {
	f := parseRT("c19", args)
	t, err := NewTrace(f.out)
	if err != nil {
		return err
	}
	defer t.Close()
	r := rand.New(rand.NewSource(f.seed))
	scn := 0
	one := func(c rtCase) {
		scn++
		t.Reset(scn, "prop", "C19", "rel", "identity")
		runRT(t, c, genJ2KSamples(r, c.Cls, c.W, c.H, c.C, c.P), rtOpts{logStream: f.streams})
	}
	tileCase := func(w, h, tw, th int) rtCase {
		c := rtCase{API: "j2k", Lossless: true, W: w, H: h, TileW: tw, TileH: th}
		c.C = []int{1, 3}[r.Intn(2)]
		c.P = []int{8, 12, 16}[r.Intn(3)]
		c.Levels = r.Intn(6)
		c.Layers = 1 + r.Intn(3)
		c.MCT = true
		c.CBW, c.CBH = 64, 64
		if r.Intn(3) == 0 {
			cb := cbSizes[r.Intn(8)]
			c.CBW, c.CBH = cb[0], cb[1]
		}
		if c.Layers > 1 && r.Intn(2) == 0 { // global rate allocation with a final lossless layer
			c.Ratio = float64(2 + r.Intn(8))
			c.AppendLL = true
			c.PCRD = r.Intn(2) == 0
		}
		c.Cls = j2kClasses[r.Intn(len(j2kClasses))]
		return c
	}
	// exhaustive small grid: every (W,H,TW,TH) with W,H <= G
	g := 6
	if f.exh >= 2 {
		g = 12
	}
	for w := 1; w <= g; w++ {
		for h := 1; h <= g; h++ {
			for tw := 1; tw <= w; tw++ {
				for th := 1; th <= h; th++ {
					if tw == w && th == h {
						continue
					}
					if (w+tw-1)/tw*((h+th-1)/th) > 64 {
						continue
					}
					if f.exh < 2 && (w*31+h*17+tw*7+th+int(f.seed))%4 != 0 {
						continue
					}
					one(tileCase(w, h, tw, th))
				}
			}
		}
	}
	nGrid := scn
	for i := 0; i < f.n; i++ {
		w, h := 1+r.Intn(f.maxdim), 1+r.Intn(f.maxdim)
		nx, ny := 1+r.Intn(8), 1+r.Intn(8)
		tw, th := (w+nx-1)/nx, (h+ny-1)/ny
		switch r.Intn(5) {
		case 0: // powers of two
			tw, th = 1<<r.Intn(7), 1<<r.Intn(7)
		case 1: // odd tile sizes: origins on odd coordinates
			tw, th = tw|1, th|1
		case 2: // last tile one sample wide
			if w > 1 {
				tw = max(1, (w-1+nx-1)/nx)
				for tw > 1 && (w-1)%tw != 0 {
					tw--
				}
			}
		}
		tw, th = max(1, min(tw, w)), max(1, min(th, h))
		if ((w+tw-1)/tw)*((h+th-1)/th) > 64 {
			tw, th = (w+7)/8, (h+7)/8
		}
		c := tileCase(w, h, tw, th)
		if i%3 == 0 {
			// grids on which tile-local and absolute geometry coincide: image inside one code-block
			// cell, tile sizes multiples of 2^levels (every tile origin stays even down to the LL band)
			c.CBW, c.CBH = 64, 64
			c.W, c.H = 2+r.Intn(63), 2+r.Intn(63)
			c.Levels = r.Intn(4)
			m := 1 << c.Levels
			c.TileW = m * (1 + r.Intn(max(1, c.W/m)))
			c.TileH = m * (1 + r.Intn(max(1, c.H/m)))
			if c.TileW >= c.W && c.TileH >= c.H {
				c.TileW = m
			}
		}
		one(c)
	}
	fmt.Printf("c19: scenarios=%d grid=%d events=%d\n", scn, nGrid, t.n)
	return nil
}
