// vdrive executes scenarios against the real go-dicom-codecs library (built from /repo's
// working tree through the replace directive) and records what the library did as an
// ndjson trace.  It decides nothing: every verdict is taken by TLC on the trace.
package main

import (
	"fmt"
	"os"
)

type subcmd func(args []string) error

var subcmds = map[string]subcmd{}

func register(name string, f subcmd) { subcmds[name] = f }

func main() {
	if len(os.Args) < 2 {
		fmt.Fprintln(os.Stderr, "usage: vdrive <family> [flags]")
		os.Exit(2)
	}
	f, ok := subcmds[os.Args[1]]
	if !ok {
		fmt.Fprintln(os.Stderr, "unknown family", os.Args[1])
		os.Exit(2)
	}
	if err := f(os.Args[2:]); err != nil {
		fmt.Fprintln(os.Stderr, "vdrive:", err)
		os.Exit(3)
	}
}
