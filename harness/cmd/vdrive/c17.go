package main

import (
	"bufio"
	"encoding/json"
	"flag"
	"fmt"
	"math/rand"
	"os"

	"github.com/cocosip/go-dicom/pkg/imaging/codec"

	"github.com/cocosip/go-dicom-codecs/jpeg2000"
)

func init() { register("c17", runC17) }

type argTuple struct {
	Enc    string `json:"enc"`
	W      int    `json:"w"`
	H      int    `json:"h"`
	C      int    `json:"c"`
	P      int    `json:"p"`
	Q      int    `json:"q"`
	Near   int    `json:"near"`
	Pred   int    `json:"pred"`
	Levels int    `json:"levels"`
	CBW    int    `json:"cbw"`
	CBH    int    `json:"cbh"`
	Layers int    `json:"layers"`
	Buf    string `json:"buf"`
	BufLen int    `json:"buflen"`
}

func pos(x int) int {
	if x > 0 {
		return x
	}
	return 0
}

// mag: the buffer a caller would pass for a negative dimension is sized by its magnitude, so that a
// buffer-length check cannot stand in for the missing dimension check (e.g. -1 x -1: product positive).
func mag(x int) int {
	if x < 0 {
		return -x
	}
	return x
}

// foreignParams is a codec.Parameters implementation the codecs know nothing about; it answers every
// name with a value of an unexpected type.
type foreignParams struct{}

func (foreignParams) GetParameter(name string) interface{} { return struct{ X string }{"?"} }
func (foreignParams) SetParameter(string, interface{})     {}

func runC17(args []string) error {
	fs := flag.NewFlagSet("c17", flag.ExitOnError)
	scnPath := fs.String("scn", "", "argument tuples from TLC (ndjson)")
	outPath := fs.String("out", "", "trace output")
	seed := fs.Int64("seed", 1, "seed")
	fs.Parse(args)
	t, err := NewTrace(*outPath)
	if err != nil {
		return err
	}
	defer t.Close()
	r := rand.New(rand.NewSource(*seed))
	scn := 0
	f, err := os.Open(*scnPath)
	if err != nil {
		return err
	}
	sc := bufio.NewScanner(f)
	sc.Buffer(make([]byte, 1<<20), 1<<24)
	for sc.Scan() {
		var a argTuple
		if err := json.Unmarshal(sc.Bytes(), &a); err != nil {
			return err
		}
		bytesPer := 1
		if a.P > 8 {
			bytesPer = 2
		}
		req := mag(a.W) * mag(a.H) * mag(a.C) * bytesPer
		if req > 64<<20 {
			continue // keep memory small; such tuples are out of the generator's Sane() scope anyway
		}
		switch a.Buf {
		case "zero":
			a.BufLen = 0
		case "one":
			a.BufLen = 1
		case "req-1":
			a.BufLen = pos(req - 1)
		case "req+1":
			a.BufLen = req + 1
		case "row":
			a.BufLen = mag(a.W) * mag(a.C) * bytesPer
		case "half":
			a.BufLen = req / 2
		default:
			a.BufLen = req
		}
		buf := make([]byte, a.BufLen)
		r.Read(buf)
		if a.P >= 1 && a.P < 16 && a.P != 8 { // keep samples inside the declared precision
			mask := (1 << uint(a.P)) - 1
			if bytesPer == 1 {
				for i := range buf {
					buf[i] &= byte(mask)
				}
			} else {
				for i := 1; i < len(buf); i += 2 {
					buf[i] &= byte(mask >> 8)
				}
			}
		}
		scn++
		t.Reset(scn)
		c := rtCase{API: a.Enc, W: a.W, H: a.H, C: a.C, P: a.P, Near: a.Near, Pred: a.Pred, Quality: a.Q,
			Levels: a.Levels, CBW: a.CBW, CBH: a.CBH, Layers: a.Layers, Lossless: true, MCT: true}
		var st []byte
		var e error
		pan, site, class := protect(func() {
			if a.Enc == "j2k" { // the package API takes the code-block size as given (0 must not be replaced by a default)
				ep := jpeg2000.DefaultEncodeParams(a.W, a.H, a.C, a.P, false)
				ep.NumLevels, ep.CodeBlockWidth, ep.CodeBlockHeight, ep.NumLayers = a.Levels, a.CBW, a.CBH, a.Layers
				st, e = jpeg2000.NewEncoder(ep).Encode(buf)
			} else {
				st, e = rtEncode(c, buf)
			}
		})
		outcome := "ok"
		if pan {
			outcome = "panic"
		} else if e != nil {
			outcome = "error"
		}
		dec := `{"w":0,"h":0,"c":0,"p":0,"err":""}`
		if outcome == "ok" {
			var d decResult
			p2, s2, c2 := protect(func() { d = rtDecode(c, st) })
			es := errStr(d.err)
			if p2 {
				es = "panic: " + s2 + ": " + c2
			}
			eb, _ := json.Marshal(es)
			dec = fmt.Sprintf(`{"w":%d,"h":%d,"c":%d,"p":%d,"err":%s}`, d.w, d.h, d.c, d.p, eb)
		}
		ab, _ := json.Marshal(a)
		t.Event("args", "a", json.RawMessage(ab), "outcome", outcome, "site", site+" "+class, "slen", len(st), "dec", json.RawMessage(dec), "err", errStr(e))
	}
	f.Close()
	nPkg := scn
	// codec level
	type cc struct {
		what                            string
		rows, cols, ba, bs, spp, pixrep int
		frames                          int    // number of frames (0: none)
		flen                            string // req | req-1 | row | empty
		params                          string // nil | foreign | default
		mustfail                        int
	}
	for _, ts := range allTS {
		cd, err := getCodec(ts)
		if err != nil {
			continue
		}
		ba, bs := 8, 8
		if ts == "51" {
			ba, bs = 16, 12
		}
		cases := []cc{
			{"nominal nil parameters", 5, 6, ba, bs, 1, 0, 1, "req", "nil", 0},
			{"foreign Parameters implementation", 5, 6, ba, bs, 1, 0, 1, "req", "foreign", 0},
			{"default parameters object", 5, 6, ba, bs, 1, 0, 2, "req", "default", 0},
			{"zero frames", 5, 6, ba, bs, 1, 0, 0, "req", "nil", 0},
			{"empty frame", 5, 6, ba, bs, 1, 0, 1, "empty", "nil", 1},
			{"frame one byte short", 5, 6, ba, bs, 1, 0, 1, "req-1", "nil", 1},
			{"frame with the first row only", 5, 6, ba, bs, 1, 0, 1, "row", "nil", 1},
			{"second frame short", 5, 6, ba, bs, 1, 0, 2, "second-short", "nil", 1},
			{"zero rows", 0, 6, ba, bs, 1, 0, 1, "one", "nil", 1},
			{"zero columns", 5, 0, ba, bs, 1, 0, 1, "one", "nil", 1},
			{"zero samples per pixel", 5, 6, ba, bs, 0, 0, 1, "one", "nil", 1},
			{"BitsAllocated 0", 5, 6, 0, 0, 1, 0, 1, "one", "nil", 1},
			{"three samples per pixel", 5, 6, ba, bs, 3, 0, 1, "req", "nil", 0},
			{"four samples per pixel", 5, 6, ba, bs, 4, 0, 1, "req", "nil", 0},
			{"BitsStored above BitsAllocated", 5, 6, 8, 12, 1, 0, 1, "req", "nil", 0},
			{"16 bits allocated", 5, 6, 16, 16, 1, 0, 1, "req", "nil", 0},
			{"32 bits allocated x 4 samples", 3, 3, 32, 32, 4, 0, 1, "req", "nil", 0},
			{"BitsStored 1", 5, 6, 8, 1, 1, 0, 1, "req", "nil", 0},
		}
		for _, k := range cases {
			// which of these the syntax cannot represent at all (must fail) beyond the generic ones
			must := k.mustfail
			if k.what == "16 bits allocated" && (ts == "50") {
				must = 1
			}
			if k.what == "32 bits allocated x 4 samples" {
				must = 1 // 16 byte planes / unsupported depth for every syntax
			}
			fi := frameInfo(k.rows, k.cols, k.ba, k.bs, k.spp, k.pixrep, 0)
			if k.ba == 0 {
				fi.HighBit = 0
			}
			bytesPer := (k.ba + 7) / 8
			req := k.rows * k.cols * k.spp * bytesPer
			var frames [][]byte
			for i := 0; i < k.frames; i++ {
				n := req
				switch k.flen {
				case "empty":
					n = 0
				case "req-1":
					n = pos(req - 1)
				case "row":
					n = k.cols * k.spp * bytesPer
				case "one":
					n = 1
				case "second-short":
					if i == 1 {
						n = pos(req - 1)
					}
				}
				fr := make([]byte, n)
				r.Read(fr)
				if k.bs >= 1 && k.bs < k.ba && k.ba == 16 {
					for j := 1; j < len(fr); j += 2 {
						fr[j] &= byte(((1 << uint(k.bs)) - 1) >> 8)
					}
				} else if k.bs >= 1 && k.bs < 8 && k.ba == 8 {
					for j := range fr {
						fr[j] &= byte((1 << uint(k.bs)) - 1)
					}
				}
				frames = append(frames, fr)
			}
			var params codec.Parameters
			switch k.params {
			case "foreign":
				params = foreignParams{}
			case "default":
				params = cd.GetDefaultParameters()
			}
			scn++
			t.Reset(scn)
			enc := NewPD(fi)
			var e error
			pan, site, class := protect(func() { e = cd.Encode(NewPD(fi, frames...), enc, params) })
			outcome := "ok"
			if pan {
				outcome = "panic"
			} else if e != nil {
				outcome = "error"
			}
			declens := []int{}
			decerr := ""
			if outcome == "ok" {
				dec := NewPD(fi)
				var de error
				p2, s2, c2 := protect(func() { de = cd.Decode(NewPD(fi, enc.frames...), dec, nil) })
				decerr = errStr(de)
				if p2 {
					decerr = "panic: " + s2 + ": " + c2
				}
				declens = lens(dec.frames)
				if decerr == "" && len(dec.frames) != len(enc.frames) {
					decerr = "decoded frame count differs"
				}
			}
			want := req
			if ts == "rle" && want%2 == 1 {
				want++
			}
			t.Event("cargs", "ts", ts, "what", k.what, "info", infoJSON(fi), "nin", len(frames), "nout", len(enc.frames), "outcome", outcome,
				"site", site+" "+class, "mustfail", must, "declens", declens, "wantlen", want, "decerr", decerr, "err", errStr(e))
		}
	}
	fmt.Printf("c17: scenarios=%d package=%d codec=%d events=%d\n", scn, nPkg, scn-nPkg, t.n)
	return nil
}
