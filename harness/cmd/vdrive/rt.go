package main

import (
	"encoding/json"
	"fmt"

	"github.com/cocosip/go-dicom-codecs/jpeg/baseline"
	"github.com/cocosip/go-dicom-codecs/jpeg/extended"
	jll "github.com/cocosip/go-dicom-codecs/jpeg/lossless"
	"github.com/cocosip/go-dicom-codecs/jpeg/lossless14sv1"
	"github.com/cocosip/go-dicom-codecs/jpeg2000"
	"github.com/cocosip/go-dicom-codecs/jpeg2000/htj2k"
	"github.com/cocosip/go-dicom-codecs/jpeg2000/t2"
	jls "github.com/cocosip/go-dicom-codecs/jpegls/lossless"
	jlsn "github.com/cocosip/go-dicom-codecs/jpegls/nearlossless"
)

// rtCase is one encode/decode round trip through a package-level API.
type rtCase struct {
	API     string `json:"api"` // jpegll | sv1 | jls | jlsnear | j2k | baseline | extended
	W       int    `json:"w"`
	H       int    `json:"h"`
	C       int    `json:"c"`
	P       int    `json:"p"`
	Signed  bool   `json:"signed"`
	Near    int    `json:"near"`
	Pred    int    `json:"pred,omitempty"`
	Quality int    `json:"q,omitempty"`
	// JPEG 2000
	Levels   int     `json:"levels"`
	CBW      int     `json:"cbw"`
	CBH      int     `json:"cbh"`
	PrecW    int     `json:"precw,omitempty"`
	PrecH    int     `json:"prech,omitempty"`
	Prog     int     `json:"prog,omitempty"`
	Layers   int     `json:"layers"`
	MCT      bool    `json:"mct,omitempty"`
	TileW    int     `json:"tw"`
	TileH    int     `json:"th"`
	Lossless bool    `json:"lossless,omitempty"`
	Ratio    float64 `json:"ratio,omitempty"`
	AppendLL bool    `json:"appendll,omitempty"`
	PCRD     bool    `json:"pcrd,omitempty"`
	HT       bool    `json:"ht,omitempty"`
	Cls      string  `json:"cls,omitempty"`
}

func (c rtCase) cfgJSON() json.RawMessage {
	b, _ := json.Marshal(c)
	return b
}

// cfgFull: every field present (trace specifications access them without guards)
func (c rtCase) cfgFull() json.RawMessage {
	return json.RawMessage(fmt.Sprintf(`{"api":"%s","w":%d,"h":%d,"c":%d,"p":%d,"signed":%t,"near":%d,"pred":%d,"q":%d,"levels":%d,"cbw":%d,"cbh":%d,"prog":%d,"layers":%d,"mct":%t,"tw":%d,"th":%d,"lossless":%t,"ht":%t,"cls":"%s"}`,
		c.API, c.W, c.H, c.C, c.P, c.Signed, c.Near, c.Pred, c.Quality, c.Levels, c.CBW, c.CBH, c.Prog, max(1, c.Layers), c.MCT, c.TileW, c.TileH, c.Lossless, c.HT, c.Cls))
}

type rtOpts struct {
	logStream bool // include the encoded bytes in the trace
	logSrc    bool
}

// containerValues: the raw container integers (8-bit or 16-bit LE words) of a pixel buffer.
func containerValues(b []byte, p int) []int { return unpackSamples(b, p) }

// signedToContainer maps signed sample values to P-bit two's complement in the container.
func signedToContainer(s []int, p int) []int {
	out := make([]int, len(s))
	for i, v := range s {
		out[i] = v & ((1 << p) - 1)
	}
	return out
}

func (c rtCase) j2kParams() *jpeg2000.EncodeParams {
	ep := jpeg2000.DefaultEncodeParams(c.W, c.H, c.C, c.P, c.Signed)
	ep.NumLevels = c.Levels
	ep.Lossless = c.Lossless
	if c.CBW > 0 {
		ep.CodeBlockWidth, ep.CodeBlockHeight = c.CBW, c.CBH
	}
	ep.PrecinctWidth, ep.PrecinctHeight = c.PrecW, c.PrecH
	ep.ProgressionOrder = uint8(c.Prog)
	if c.Layers > 0 {
		ep.NumLayers = c.Layers
	}
	ep.EnableMCT = c.MCT
	ep.TileWidth, ep.TileHeight = c.TileW, c.TileH
	if c.Quality > 0 {
		ep.Quality = c.Quality
	}
	ep.TargetRatio = c.Ratio
	ep.AppendLosslessLayer = c.AppendLL
	ep.UsePCRDOpt = c.PCRD
	if c.HT {
		ep.HTJ2KMode = true
		ep.BlockEncoderFactory = func(w, h int) jpeg2000.BlockEncoder { return htj2k.NewHTEncoder(w, h) }
	}
	return ep
}

type decResult struct {
	pix              []byte
	w, h, c, p, near int
	signed           bool
	err              error
}

func rtEncode(c rtCase, pix []byte) (stream []byte, err error) {
	switch c.API {
	case "jpegll":
		return jll.Encode(pix, c.W, c.H, c.C, c.P, c.Pred)
	case "sv1":
		return lossless14sv1.Encode(pix, c.W, c.H, c.C, c.P)
	case "jls":
		return jls.Encode(pix, c.W, c.H, c.C, c.P)
	case "jlsnear":
		return jlsn.Encode(pix, c.W, c.H, c.C, c.P, c.Near)
	case "baseline":
		return baseline.Encode(pix, c.W, c.H, c.C, c.Quality)
	case "extended":
		return extended.Encode(pix, c.W, c.H, c.C, c.P, c.Quality)
	case "j2k":
		return jpeg2000.NewEncoder(c.j2kParams()).Encode(pix)
	}
	return nil, fmt.Errorf("harness: unknown api %q", c.API)
}

func rtDecode(c rtCase, stream []byte) (d decResult) {
	d.near = -1
	switch c.API {
	case "jpegll":
		d.pix, d.w, d.h, d.c, d.p, d.err = jll.Decode(stream)
	case "sv1":
		d.pix, d.w, d.h, d.c, d.p, d.err = lossless14sv1.Decode(stream)
	case "jls":
		d.pix, d.w, d.h, d.c, d.p, d.err = jls.Decode(stream)
	case "jlsnear":
		d.pix, d.w, d.h, d.c, d.p, d.near, d.err = jlsn.Decode(stream)
	case "baseline":
		d.pix, d.w, d.h, d.c, d.err = baseline.Decode(stream)
		d.p = 8
	case "extended":
		d.pix, d.w, d.h, d.c, d.p, d.err = extended.Decode(stream)
	case "j2k":
		dec := jpeg2000.NewDecoder()
		if c.HT {
			dec.SetBlockDecoderFactory(func(w, h int, _ int) t2.BlockDecoder { return htj2k.NewHTDecoder(w, h) })
		}
		d.err = dec.Decode(stream)
		if d.err == nil {
			d.pix = dec.GetPixelData()
			d.w, d.h, d.c, d.p, d.signed = dec.Width(), dec.Height(), dec.Components(), dec.BitDepth(), dec.IsSigned()
		}
	default:
		d.err = fmt.Errorf("harness: unknown api %q", c.API)
	}
	return
}

// runRT records enc and dec events for one case. src are container values (low P bits).
func runRT(t *TraceWriter, c rtCase, src []int, o rtOpts) (stream []byte, out []int) {
	pix := packSamples(src, c.P)
	var err error
	pan, site, class := protect(func() { stream, err = rtEncode(c, pix) })
	es := errStr(err)
	if pan {
		es = "panic: " + site + ": " + class
	}
	kv := []any{"cfg", c.cfgJSON(), "src", src, "slen", len(stream), "err", es}
	if o.logStream {
		kv = append(kv, "stream", stream)
	}
	t.Event("enc", kv...)
	if es != "" {
		return nil, nil
	}
	var d decResult
	pan, site, class = protect(func() { d = rtDecode(c, stream) })
	es = errStr(d.err)
	if pan {
		es = "panic: " + site + ": " + class
	}
	if es == "" {
		out = containerValues(d.pix, c.P)
	}
	sg := 0
	if d.signed {
		sg = 1
	}
	t.Event("dec", "geom", json.RawMessage(fmt.Sprintf(`{"w":%d,"h":%d,"c":%d,"p":%d,"near":%d,"signed":%d}`, d.w, d.h, d.c, d.p, d.near, sg)),
		"outbytes", len(d.pix), "out", out, "err", es)
	return stream, out
}
