package main

import (
	"bufio"
	"bytes"
	"context"
	"encoding/json"
	"flag"
	"fmt"
	"math/rand"
	"os"
	"os/exec"
	"path/filepath"
	"runtime"
	"runtime/debug"
	"strconv"
	"strings"
	"syscall"
	"time"

	"github.com/cocosip/go-dicom/pkg/imaging/imagetypes"
)

// Robustness drivers for C08 (no panics) and C09 (bounded time and memory).
//
//	robust-templates : write the template streams (ndjson) for the TLC edit planner
//	robust           : parent; executes an edit plan in child processes, writes "run" events
//	robust-child     : executes plan lines from stdin, one result line per case
func init() {
	register("robust-templates", runRobustTemplates)
	register("robust", runRobust)
	register("robust-child", runRobustChild)
}

type template struct {
	Name   string `json:"name"`
	API    string `json:"api"` // decode entry point family
	Stream []byte `json:"-"`
	Info   [5]int `json:"info"` // rows, cols, ba, spp, planar for codec-level entries
}

// robustTemplates builds small valid streams of every codec and geometry class with the real
// encoders (deterministic: fixed seed), plus the third-party HTJ2K fixtures.
func robustTemplates(repo string) []template {
	r := rand.New(rand.NewSource(7))
	var ts []template
	add := func(name, api string, c rtCase, cls string) {
		src := genJ2KSamples(r, cls, c.W, c.H, c.C, c.P)
		st, err := rtEncode(c, packSamples(src, c.P))
		if err != nil || len(st) == 0 {
			return
		}
		ba := 8
		if c.P > 8 {
			ba = 16
		}
		ts = append(ts, template{Name: name, API: api, Stream: st, Info: [5]int{c.H, c.W, ba, c.C, 0}})
	}
	add("baseline-gray", "baseline", rtCase{API: "baseline", W: 9, H: 7, C: 1, P: 8, Quality: 80}, "smooth")
	add("baseline-rgb", "baseline", rtCase{API: "baseline", W: 10, H: 9, C: 3, P: 8, Quality: 60}, "noise")
	add("extended-8", "extended", rtCase{API: "extended", W: 9, H: 9, C: 1, P: 8, Quality: 90}, "noise")
	add("extended-12", "extended", rtCase{API: "extended", W: 11, H: 8, C: 1, P: 12, Quality: 75}, "noise")
	add("lossless-p1", "jpegll", rtCase{API: "jpegll", W: 7, H: 6, C: 1, P: 8, Pred: 1}, "noise")
	add("lossless-p4-rgb", "jpegll", rtCase{API: "jpegll", W: 5, H: 5, C: 3, P: 8, Pred: 4}, "smooth")
	add("lossless-p7-16", "jpegll", rtCase{API: "jpegll", W: 6, H: 4, C: 1, P: 16, Pred: 7}, "noise")
	add("sv1-12", "sv1", rtCase{API: "sv1", W: 7, H: 5, C: 1, P: 12, Pred: 1}, "noise")
	add("sv1-rgb", "sv1", rtCase{API: "sv1", W: 4, H: 6, C: 3, P: 8, Pred: 1}, "smooth")
	add("jls-8", "jls", rtCase{API: "jls", W: 9, H: 6, C: 1, P: 8}, "runs")
	add("jls-rgb", "jls", rtCase{API: "jls", W: 6, H: 5, C: 3, P: 8}, "noise")
	add("jls-16", "jls", rtCase{API: "jls", W: 5, H: 7, C: 1, P: 16}, "noise")
	add("jlsnear-8", "jlsnear", rtCase{API: "jlsnear", W: 8, H: 6, C: 1, P: 8, Near: 3}, "smooth")
	add("jlsnear-rgb", "jlsnear", rtCase{API: "jlsnear", W: 6, H: 6, C: 3, P: 8, Near: 2}, "noise")
	add("j2k-rev", "j2k", rtCase{API: "j2k", Lossless: true, W: 9, H: 8, C: 1, P: 8, Levels: 2, CBW: 8, CBH: 8, Layers: 1}, "noise")
	add("j2k-rev-rgb-layers", "j2k", rtCase{API: "j2k", Lossless: true, W: 8, H: 8, C: 3, P: 8, Levels: 1, CBW: 16, CBH: 16, Layers: 3, MCT: true, Prog: 2}, "noise")
	add("j2k-irr", "j2k", rtCase{API: "j2k", Lossless: false, W: 12, H: 9, C: 1, P: 12, Levels: 2, CBW: 16, CBH: 16, Layers: 1, Quality: 70}, "smooth")
	add("j2k-tiled", "j2k", rtCase{API: "j2k", Lossless: true, W: 16, H: 16, C: 1, P: 8, Levels: 1, CBW: 64, CBH: 64, Layers: 1, TileW: 8, TileH: 8}, "noise")
	add("j2k-prec", "j2k", rtCase{API: "j2k", Lossless: true, W: 40, H: 36, C: 1, P: 8, Levels: 2, CBW: 8, CBH: 8, Layers: 2, PrecW: 32, PrecH: 32, Prog: 3}, "smooth")
	add("j2k-ht", "j2kht", rtCase{API: "j2k", Lossless: true, HT: true, W: 12, H: 10, C: 1, P: 8, Levels: 1, CBW: 16, CBH: 16, Layers: 1}, "noise")
	// codec-level templates (registered codecs incl. RLE with a FrameInfo)
	for _, ct := range []struct {
		ts              string
		rows, cols, ba  int
		bs, spp, planar int
	}{{"rle", 4, 5, 8, 8, 1, 0}, {"rle", 3, 3, 16, 16, 3, 1}, {"50", 8, 8, 8, 8, 1, 0}, {"51", 8, 9, 16, 12, 1, 0}, {"57", 6, 5, 16, 12, 1, 0}, {"70", 5, 6, 8, 8, 3, 0},
		{"80", 6, 6, 16, 16, 1, 0}, {"81", 6, 7, 8, 8, 1, 0}, {"90", 9, 9, 16, 12, 1, 0}, {"91", 8, 8, 8, 8, 3, 0}, {"92", 8, 8, 8, 8, 1, 0}, {"93", 8, 8, 8, 8, 1, 0},
		{"201", 9, 8, 8, 8, 1, 0}, {"202", 8, 9, 16, 16, 1, 0}, {"203", 8, 8, 8, 8, 3, 0}} {
		fi := frameInfo(ct.rows, ct.cols, ct.ba, ct.bs, ct.spp, 0, ct.planar)
		c, err := getCodec(ct.ts)
		if err != nil {
			continue
		}
		enc := NewPD(fi)
		if err := c.Encode(NewPD(fi, genFrame(r, fi, "noise")), enc, nil); err != nil || len(enc.frames) != 1 {
			continue
		}
		ts = append(ts, template{Name: "codec-" + ct.ts + fmt.Sprintf("-%d", ct.ba*ct.spp), API: "codec:" + ct.ts, Stream: enc.frames[0],
			Info: [5]int{ct.rows, ct.cols, ct.ba, ct.spp, ct.planar}})
	}
	// third-party fixtures (smallest ones)
	for _, fx := range []string{"mono_u8_127x129/fo_htj2k_lossless.j2c", "rgb_u8_128x128/fo_htj2k_lossless_rpcl.j2c", "mono_s16_128x128/fo_htj2k_lossless.j2c"} {
		b, err := os.ReadFile(filepath.Join(repo, "test-data/htj2k/interop", fx))
		if err == nil {
			ts = append(ts, template{Name: "fixture-" + strings.ReplaceAll(fx, "/", "-"), API: "j2kht", Stream: b})
		}
	}
	return ts
}

func runRobustTemplates(args []string) error {
	fs := flag.NewFlagSet("robust-templates", flag.ExitOnError)
	out := fs.String("out", "", "ndjson output")
	repo := fs.String("repo", "/repo", "repository root (fixtures)")
	fs.Parse(args)
	t, err := NewTrace(*out)
	if err != nil {
		return err
	}
	defer t.Close()
	for i, tp := range robustTemplates(*repo) {
		t.Reset(i + 1)
		head := tp.Stream
		if len(head) > 600 {
			head = head[:600]
		}
		t.Event("tpl", "name", tp.Name, "api", tp.API, "len", len(tp.Stream), "head", head, "info", tp.Info[:])
	}
	return nil
}

// one edit-plan line (from the TLC planner or from the seeded generator)
type planLine struct {
	T    int    `json:"t"`              // template index (1-based)
	Kind string `json:"k"`              // set | trunc | set2 | tail | info
	Off  int    `json:"o"`              // byte offset (0-based) or truncation length
	Vals []int  `json:"v,omitempty"`    // values for set (empty: all 256)
	Off2 int    `json:"o2,omitempty"`   // second offset for set2
	Info []int  `json:"info,omitempty"` // FrameInfo override for codec-level entries
	Seed int    `json:"seed,omitempty"`
}

type caseResult struct {
	Idx     int    `json:"i"`
	Outcome string `json:"out"` // ok | error | panic
	Site    string `json:"site,omitempty"`
	Class   string `json:"class,omitempty"`
	Us      int64  `json:"us"`
	Alloc   uint64 `json:"alloc"`
	PeakKiB int64  `json:"peak,omitempty"` // --only mode: growth of the resident-set high-water mark during the call
	RawUs   int64  `json:"-"`              // parent side: time before scaling by the calibration
	CalUs   int64  `json:"-"`              // parent side: calibration measured before the case
}

// Calibration workload: calReps decodes of the calibration template take calRefUs microseconds of CPU time on the
// reference sandbox when it is otherwise idle (measured; GOMAXPROCS=1).  When the same work takes longer, the machine is
// slower or busier, and decode times are scaled back by that factor before they are compared with C09's 10 s; a faster
// machine is not scaled (never stricter than the raw measurement).
const (
	calReps  = 4
	calRefUs = 100000
)

// chargedScale: factor (<= 1) applied to measured times given the calibration measurements around the case.
func chargedScale(calBefore, calAfter int64) float64 {
	c := calBefore
	if calAfter > c {
		c = calAfter
	}
	if c <= calRefUs {
		return 1
	}
	return float64(calRefUs) / float64(c)
}

// selfCPUus: user+system CPU time of this process (all threads) in microseconds.
func selfCPUus() int64 {
	var ru syscall.Rusage
	if syscall.Getrusage(syscall.RUSAGE_SELF, &ru) != nil {
		return 0
	}
	return (ru.Utime.Sec+ru.Stime.Sec)*1_000_000 + int64(ru.Utime.Usec+ru.Stime.Usec)
}

// procCPUus: user+system CPU time of process pid from /proc/<pid>/stat (clock ticks of 10 ms), -1 if unreadable.
func procCPUus(pid int) int64 {
	b, err := os.ReadFile(fmt.Sprintf("/proc/%d/stat", pid))
	if err != nil {
		return -1
	}
	i := bytes.LastIndexByte(b, ')')
	if i < 0 {
		return -1
	}
	f := strings.Fields(string(b[i+1:]))
	if len(f) < 13 {
		return -1
	}
	ut, e1 := strconv.ParseInt(f[11], 10, 64)
	st, e2 := strconv.ParseInt(f[12], 10, 64)
	if e1 != nil || e2 != nil {
		return -1
	}
	return (ut + st) * 10_000
}

// procStatusKiB reads a field such as VmHWM or VmRSS (KiB) from /proc/self/status.
func procStatusKiB(field string) int64 {
	b, err := os.ReadFile("/proc/self/status")
	if err != nil {
		return -1
	}
	for _, l := range strings.Split(string(b), "\n") {
		if strings.HasPrefix(l, field+":") {
			var v int64
			fmt.Sscanf(strings.TrimSpace(l[len(field)+1:]), "%d", &v)
			return v
		}
	}
	return -1
}

func decodeEntry(api string, stream []byte, info [5]int) (outcome, site, class string) {
	var err error
	pan, s, c := protect(func() {
		if strings.HasPrefix(api, "codec:") {
			ts := api[6:]
			cd, e := getCodec(ts)
			if e != nil {
				err = e
				return
			}
			fi := &imagetypes.FrameInfo{Height: uint16(info[0]), Width: uint16(info[1]), BitsAllocated: uint16(info[2]), BitsStored: uint16(info[2]),
				HighBit: uint16(max(info[2], 1) - 1), SamplesPerPixel: uint16(info[3]), PlanarConfiguration: uint16(info[4]), PhotometricInterpretation: "MONOCHROME2"}
			err = cd.Decode(NewPD(fi, stream), NewPD(fi), nil)
			return
		}
		a := api
		cs := rtCase{API: a}
		if a == "j2kht" {
			cs = rtCase{API: "j2k", HT: true}
		}
		d := rtDecode(cs, stream)
		err = d.err
	})
	if pan {
		return "panic", s, c
	}
	if err != nil {
		return "error", "", ""
	}
	return "ok", "", ""
}

// expandPlan enumerates the concrete cases (mutated streams) of a plan line
func expandPlan(pl planLine, tp template, f func(stream []byte, info [5]int, edit string)) {
	base := tp.Stream
	info := tp.Info
	if len(pl.Info) == 5 {
		copy(info[:], pl.Info)
	}
	switch pl.Kind {
	case "shift": // JPEG 2000: move the image and the tile grid on the reference grid by D (all origins and extents): the
		// declared image stays the same, every absolute coordinate changes
		if len(base) < 40 || base[0] != 0xFF || base[1] != 0x4F || base[2] != 0xFF || base[3] != 0x51 {
			return
		}
		for _, d := range pl.Vals {
			m := append([]byte{}, base...)
			for _, fld := range []int{0, 1, 2, 3, 6, 7} { // Xsiz Ysiz XOsiz YOsiz XTOsiz YTOsiz
				o := 8 + 4*fld
				v := uint64(m[o])<<24 | uint64(m[o+1])<<16 | uint64(m[o+2])<<8 | uint64(m[o+3])
				v += uint64(d)
				if v > 0xFFFFFFFF {
					v = 0xFFFFFFFF
				}
				m[o], m[o+1], m[o+2], m[o+3] = byte(v>>24), byte(v>>16), byte(v>>8), byte(v)
			}
			f(m, info, fmt.Sprintf("shift=%d", d))
		}
	case "set":
		vals := pl.Vals
		if len(vals) == 0 {
			vals = make([]int, 256)
			for i := range vals {
				vals[i] = i
			}
		}
		if pl.Off >= len(base) {
			return
		}
		for _, v := range vals {
			if int(base[pl.Off]) == v {
				continue
			}
			m := append([]byte{}, base...)
			m[pl.Off] = byte(v)
			f(m, info, fmt.Sprintf("set@%d=%d", pl.Off, v))
		}
	case "set2":
		r := rand.New(rand.NewSource(int64(pl.Seed)))
		for k := 0; k < 16; k++ {
			m := append([]byte{}, base...)
			if pl.Off < len(m) {
				m[pl.Off] = byte(r.Intn(256))
			}
			if pl.Off2 < len(m) {
				m[pl.Off2] = byte(r.Intn(256))
			}
			f(m, info, fmt.Sprintf("set2@%d,%d#%d", pl.Off, pl.Off2, k))
		}
	case "trunc":
		if pl.Off <= len(base) {
			f(append([]byte{}, base[:pl.Off]...), info, fmt.Sprintf("trunc@%d", pl.Off))
		}
	case "tail": // valid prefix of length Off followed by random bytes
		r := rand.New(rand.NewSource(int64(pl.Seed)))
		for k := 0; k < 8; k++ {
			n := pl.Off
			if n > len(base) {
				n = len(base)
			}
			m := append([]byte{}, base[:n]...)
			extra := make([]byte, 1+r.Intn(64))
			r.Read(extra)
			f(append(m, extra...), info, fmt.Sprintf("tail@%d#%d", n, k))
		}
	case "info": // unchanged stream, other FrameInfo (codec-level entries)
		f(append([]byte{}, base...), info, fmt.Sprintf("info=%v", info))
	}
}

func runRobustChild(args []string) error {
	fs := flag.NewFlagSet("robust-child", flag.ExitOnError)
	repo := fs.String("repo", "/repo", "repository root")
	skip := fs.Int("skip", 0, "number of cases to skip (already executed)")
	memMB := fs.Int("aslimit", 6144, "RLIMIT_AS in MiB (kill switch)")
	only := fs.Int("only", 0, "run only this case and report the resident-set peak growth")
	fs.Parse(args)
	lim := uint64(*memMB) << 20
	_ = syscall.Setrlimit(syscall.RLIMIT_AS, &syscall.Rlimit{Cur: lim, Max: lim})
	debug.SetGCPercent(100)
	tpls := robustTemplates(*repo)
	in := bufio.NewScanner(os.Stdin)
	in.Buffer(make([]byte, 1<<20), 1<<24)
	out := bufio.NewWriter(os.Stdout)
	idx := 0
	var ms runtime.MemStats
	// calibration: CPU time of a fixed piece of decoding work (the unedited third-party 128x128 RGB fixture, or the first
	// JPEG 2000 template).  CPU time is not independent of the load on the machine (shared cores, memory bandwidth): the
	// parent charges decode time in units of this workload, see chargedScale.
	calT := 0
	for i, tp := range tpls {
		if strings.HasPrefix(tp.Name, "fixture-rgb_u8_128x128") {
			calT = i
			break
		}
	}
	calibrate := func() {
		c0 := selfCPUus()
		for k := 0; k < calReps; k++ {
			decodeEntry(tpls[calT].API, tpls[calT].Stream, tpls[calT].Info)
		}
		fmt.Fprintf(out, "C %d\n", selfCPUus()-c0)
	}
	sinceCal := int64(1 << 40)
	for in.Scan() {
		var pl planLine
		if err := json.Unmarshal(in.Bytes(), &pl); err != nil {
			return err
		}
		if pl.T < 1 || pl.T > len(tpls) {
			continue
		}
		tp := tpls[pl.T-1]
		expandPlan(pl, tp, func(stream []byte, info [5]int, edit string) {
			idx++
			if idx <= *skip || (*only > 0 && idx != *only) {
				return
			}
			var rss0 int64
			if *only > 0 {
				runtime.GC()
				debug.FreeOSMemory()
				rss0 = procStatusKiB("VmRSS")
			}
			// announce the case before running it: if the process dies, the parent knows the culprit
			if sinceCal > 1_500_000 { // at the start and after every 1.5 s of charged decode time
				calibrate()
				sinceCal = 0
			}
			c0 := selfCPUus()
			fmt.Fprintf(out, "B %d %d\n", idx, c0)
			out.Flush()
			runtime.ReadMemStats(&ms)
			a0 := ms.TotalAlloc
			t0 := time.Now()
			oc, site, class := decodeEntry(tp.API, stream, info)
			us := time.Since(t0).Microseconds()
			// the time charged to the call is the smaller of wall time and CPU time of the process: on a busy machine
			// wall time is inflated by other work, CPU time is not (and CPU time alone would count GC threads twice)
			if c := selfCPUus() - c0; c > 0 && c < us {
				us = c
			}
			runtime.ReadMemStats(&ms)
			sinceCal += us
			if us > 1_000_000 { // bracket every long case by a calibration after it
				calibrate()
				sinceCal = 0
			}
			cr := caseResult{Idx: idx, Outcome: oc, Site: site, Class: class, Us: us, Alloc: ms.TotalAlloc - a0}
			if *only > 0 {
				cr.PeakKiB = max(procStatusKiB("VmHWM")-rss0, 0) + 1
			}
			b, _ := json.Marshal(cr)
			out.Write(b)
			out.WriteByte('\n')
		})
	}
	out.Flush()
	return nil
}

func runRobust(args []string) error {
	fs := flag.NewFlagSet("robust", flag.ExitOnError)
	planPath := fs.String("plan", "", "edit plan (ndjson)")
	outPath := fs.String("out", "", "trace output")
	repo := fs.String("repo", "/repo", "repository root")
	workers := fs.Int("workers", runtime.NumCPU(), "child processes")
	caseTimeout := fs.Int("timeout", 12, "seconds a single case may take before the child is killed")
	fs.Parse(args)
	tpls := robustTemplates(*repo)
	// read plan, split round-robin by template over workers
	f, err := os.Open(*planPath)
	if err != nil {
		return err
	}
	var lines []string
	sc := bufio.NewScanner(f)
	sc.Buffer(make([]byte, 1<<20), 1<<24)
	for sc.Scan() {
		lines = append(lines, sc.Text())
	}
	f.Close()
	type res struct {
		w     int
		evs   []string
		cases int
	}
	ch := make(chan res, *workers)
	for w := 0; w < *workers; w++ {
		go func(w int) {
			var my []string
			for i := w; i < len(lines); i += *workers {
				my = append(my, lines[i])
			}
			evs, n := runChildPlan(my, tpls, *repo, *caseTimeout)
			ch <- res{w, evs, n}
		}(w)
	}
	t, err := NewTrace(*outPath)
	if err != nil {
		return err
	}
	defer t.Close()
	total := 0
	all := make([][]string, *workers)
	for w := 0; w < *workers; w++ {
		r := <-ch
		all[r.w] = r.evs
		total += r.cases
	}
	scn := 0
	for _, evs := range all {
		for _, e := range evs {
			scn++
			t.Reset(scn)
			t.w.WriteString(fmt.Sprintf(`{"scn":%d,"k":1,"ev":"run",%s}`+"\n", scn, e))
			t.n++
		}
	}
	fmt.Printf("robust: scenarios=%d cases=%d templates=%d events=%d\n", scn, total, len(tpls), t.n)
	return nil
}

// looksHuge is a scheduling hint, never a verdict: does the first SIZ / SOFn seem to declare more than
// 2^24 samples?  Such cases are outside C09's scope; the parent gives them 2 s instead of 11 s and
// reports "skipped-large", and RobustTrace verifies with its own header parse that they were out of scope.
func looksHuge(st []byte) bool {
	if len(st) >= 44 && st[0] == 0xFF && st[1] == 0x4F && st[2] == 0xFF && st[3] == 0x51 {
		u32 := func(i int) uint64 {
			return uint64(st[i])<<24 | uint64(st[i+1])<<16 | uint64(st[i+2])<<8 | uint64(st[i+3])
		}
		w, h := u32(8)-min(u32(8), u32(16)), u32(12)-min(u32(12), u32(20))
		c := uint64(st[40])<<8 | uint64(st[41])
		return w*h*c > 1<<24 || w > 1<<24 || h > 1<<24
	}
	return false
}

// runChildPlan executes plan lines in a child process; restarts it after a crash / timeout.
// Returns the JSON field lists of the "run" events (aggregated: one event per plan line and outcome
// class, plus one event per non-ok/error case) and the number of executed cases.
func runChildPlan(plan []string, tpls []template, repo string, caseTimeout int) ([]string, int) {
	self, _ := os.Executable()
	// flat list of (plan line index, edit description) to attribute results
	type cinfo struct {
		line int
		edit string
		tpl  int
		slen int
		head []byte
		info [5]int
		big  bool // scheduling hint only: the header seems to declare far more than 2^22 samples
	}
	var cases []cinfo
	for li, l := range plan {
		var pl planLine
		if json.Unmarshal([]byte(l), &pl) != nil || pl.T < 1 || pl.T > len(tpls) {
			continue
		}
		expandPlan(pl, tpls[pl.T-1], func(stream []byte, info [5]int, edit string) {
			h := stream
			if len(h) > 96 {
				h = h[:96]
			}
			cases = append(cases, cinfo{li, edit, pl.T, len(stream), append([]byte{}, h...), info, looksHuge(stream)})
		})
	}
	results := make([]caseResult, len(cases)+1)
	done := 0
	for done < len(cases) {
		cmd := exec.Command(self, "robust-child", "--repo", repo, "--skip", fmt.Sprint(done))
		// one scheduler thread: the CPU time of the child is then the sequential work of the decode (collector included),
		// whatever else the machine is doing and however many idle cores the collector could otherwise borrow
		cmd.Env = append(os.Environ(), "GOMAXPROCS=1")
		stdin, _ := cmd.StdinPipe()
		stdout, _ := cmd.StdoutPipe()
		cmd.Stderr = nil
		if err := cmd.Start(); err != nil {
			break
		}
		go func() {
			w := bufio.NewWriter(stdin)
			for _, l := range plan {
				w.WriteString(l)
				w.WriteByte('\n')
			}
			w.Flush()
			stdin.Close()
		}()
		lineCh := make(chan string, 1024)
		go func() {
			sc := bufio.NewScanner(stdout)
			sc.Buffer(make([]byte, 1<<16), 1<<22)
			for sc.Scan() {
				lineCh <- sc.Text()
			}
			close(lineCh)
		}()
		current := 0
		var t0 time.Time
		var cpu0 int64
		var lastCharged time.Duration
		var lastCal int64
		pendingScale := 0
		killed := ""
		// charged(): time charged to the running case so far = min(wall, CPU of the child since the case began)
		charged := func() time.Duration {
			w := time.Since(t0)
			if c := procCPUus(cmd.Process.Pid); c >= 0 {
				if d := time.Duration(c-cpu0) * time.Microsecond; d < w {
					return d
				}
			}
			return w
		}
	loop:
		for {
			select {
			case l, ok := <-lineCh:
				if !ok {
					break loop
				}
				if strings.HasPrefix(l, "C ") {
					var c int64
					fmt.Sscanf(l, "C %d", &c)
					if pendingScale > 0 && pendingScale <= len(cases) { // calibration right after a long case: rescale it
						r := &results[pendingScale]
						r.Us = int64(float64(r.RawUs) * chargedScale(r.CalUs, c))
						pendingScale = 0
					}
					lastCal = c
					continue
				}
				if strings.HasPrefix(l, "B ") {
					cpu0 = 0
					fmt.Sscanf(l, "B %d %d", &current, &cpu0)
					t0 = time.Now()
					continue
				}
				var cr caseResult
				if json.Unmarshal([]byte(l), &cr) == nil && cr.Idx >= 1 && cr.Idx <= len(cases) {
					cr.RawUs, cr.CalUs = cr.Us, lastCal
					cr.Us = int64(float64(cr.RawUs) * chargedScale(lastCal, 0))
					if cr.RawUs > 1_000_000 {
						pendingScale = cr.Idx // the child calibrates again right after a long case
					}
					results[cr.Idx] = cr
					done = cr.Idx
					current = 0
				}
			case <-time.After(500 * time.Millisecond):
				if current > 0 && current <= len(cases) {
					lim := time.Duration(caseTimeout) * time.Second
					if cases[current-1].big {
						lim = 1 * time.Second // not worth 11 s: TLC re-checks that the case really is out of C09's scope
					}
					// killed when the charged time passes the limit (or after 10x the limit of wall time whatever the load)
					scaled := time.Duration(float64(charged()) * chargedScale(lastCal, 0))
					if time.Since(t0) > lim && (scaled > lim || time.Since(t0) > 10*lim) {
						killed = "timeout"
						if cases[current-1].big {
							killed = "skipped-large"
						}
						lastCharged = scaled
						cmd.Process.Kill()
						break loop
					}
				}
			}
		}
		err := cmd.Wait()
		if current > 0 && current > done {
			// the child died (or was killed) while running case `current`
			oc := "crash"
			if killed != "" {
				oc = killed
			} else if err != nil {
				oc = "oom-or-fatal"
			}
			if killed == "" {
				lastCharged = time.Since(t0)
			}
			results[current] = caseResult{Idx: current, Outcome: oc, Us: lastCharged.Microseconds()}
			done = current
		} else if err == nil || done >= len(cases) {
			if done < len(cases) && current == 0 {
				// child ended early without a culprit: treat the remainder as not executed
				break
			}
		}
		if err == nil && done >= len(cases) {
			break
		}
	}
	// second pass: cumulative allocation is only an upper bound of the peak; cases whose bound exceeds
	// 512 MiB are re-run alone in a fresh process and the growth of the resident-set high-water mark
	// (VmHWM) is recorded as the peak.
	peaks := map[int]int64{}
	for i := 1; i <= len(cases); i++ {
		cr := results[i]
		if cr.Idx == 0 || (cr.Outcome != "ok" && cr.Outcome != "error") || cr.Alloc <= 512<<20 {
			continue
		}
		cmd := exec.Command(self, "robust-child", "--repo", repo, "--only", fmt.Sprint(i))
		cmd.Stdin = strings.NewReader(strings.Join(plan, "\n") + "\n")
		outb, err := cmd.Output()
		if err != nil {
			continue
		}
		for _, l := range strings.Split(string(outb), "\n") {
			var r2 caseResult
			if strings.HasPrefix(l, "{") && json.Unmarshal([]byte(l), &r2) == nil && r2.Idx == i && r2.PeakKiB > 0 {
				peaks[i] = r2.PeakKiB
			}
		}
	}
	// third pass: a time above 8 s (or a watchdog kill) is measured again, alone in a fresh process; the smaller of the two
	// charged times counts.  A decode that really does not terminate exceeds the limit both times; a burst of other work on
	// the machine between two calibrations does not strike twice.
	for i := 1; i <= len(cases); i++ {
		cr := results[i]
		if cr.Idx == 0 || cases[i-1].big || !(cr.Outcome == "timeout" || ((cr.Outcome == "ok" || cr.Outcome == "error") && cr.Us > 8_000_000)) {
			continue
		}
		ctx, cancel := context.WithTimeout(context.Background(), time.Duration(5*caseTimeout)*time.Second)
		cmd := exec.CommandContext(ctx, self, "robust-child", "--repo", repo, "--only", fmt.Sprint(i))
		cmd.Env = append(os.Environ(), "GOMAXPROCS=1")
		cmd.Stdin = strings.NewReader(strings.Join(plan, "\n") + "\n")
		outb, err := cmd.Output()
		cancel()
		if err != nil {
			continue // killed again (or crashed): the first measurement stands
		}
		var cals []int64
		var r2 caseResult
		got := false
		for _, l := range strings.Split(string(outb), "\n") {
			if strings.HasPrefix(l, "C ") {
				var c int64
				fmt.Sscanf(l, "C %d", &c)
				cals = append(cals, c)
			} else if strings.HasPrefix(l, "{") && json.Unmarshal([]byte(l), &r2) == nil && r2.Idx == i {
				got = true
			}
		}
		if !got {
			continue
		}
		var cb, ca int64
		if len(cals) > 0 {
			cb = cals[0]
			ca = cals[len(cals)-1]
		}
		us2 := int64(float64(r2.Us) * chargedScale(cb, ca))
		if us2 < cr.Us || cr.Outcome == "timeout" {
			if cr.Outcome == "timeout" && us2 <= int64(caseTimeout)*1_000_000 {
				cr.Outcome, cr.Site, cr.Class, cr.Alloc = r2.Outcome, r2.Site, r2.Class, r2.Alloc
			}
			if us2 < cr.Us || cr.Outcome != "timeout" {
				cr.Us = us2
			}
			results[i] = cr
		}
	}
	// aggregate: one event per (plan line, outcome) for the benign outcomes, one per case otherwise
	var evs []string
	type agg struct {
		n         int
		maxUs     int64
		maxAlloc  uint64
		firstEdit string
		line, tpl int
		outcome   string
		slen      int
	}
	aggs := map[string]*agg{}
	var order []string
	for i := 1; i <= len(cases); i++ {
		cr, ci := results[i], cases[i-1]
		if cr.Idx == 0 {
			continue
		}
		benign := (cr.Outcome == "ok" || cr.Outcome == "error") && cr.Us < 2_000_000 && cr.Alloc < 256<<20
		if benign {
			k := fmt.Sprintf("%d/%s", ci.line, cr.Outcome)
			a := aggs[k]
			if a == nil {
				a = &agg{line: ci.line, tpl: ci.tpl, outcome: cr.Outcome, firstEdit: ci.edit, slen: ci.slen}
				aggs[k] = a
				order = append(order, k)
			}
			a.n++
			if cr.Us > a.maxUs {
				a.maxUs = cr.Us
			}
			if cr.Alloc > a.maxAlloc {
				a.maxAlloc = cr.Alloc
			}
			continue
		}
		evs = append(evs, fmt.Sprintf(`"tpl":"%s","api":"%s","edit":"%s","n":1,"outcome":"%s","site":"%s","class":"%s","ms":%d,"alloc":%d,"peak":%d,"slen":%d,"head":%s,"info":%s`,
			tpls[ci.tpl-1].Name, tpls[ci.tpl-1].API, ci.edit, cr.Outcome, cr.Site, cr.Class, cr.Us/1000, cr.Alloc>>10, peaks[i], ci.slen, string(appendValue(nil, ci.head)), string(appendValue(nil, ci.info[:]))))
	}
	for _, k := range order {
		a := aggs[k]
		evs = append(evs, fmt.Sprintf(`"tpl":"%s","api":"%s","edit":"%s","n":%d,"outcome":"%s","site":"","class":"","ms":%d,"alloc":%d,"peak":0,"slen":%d,"head":[],"info":[0,0,0,0,0]`,
			tpls[a.tpl-1].Name, tpls[a.tpl-1].API, a.firstEdit, a.n, a.outcome, a.maxUs/1000, a.maxAlloc>>10, a.slen))
	}
	return evs, done
}
