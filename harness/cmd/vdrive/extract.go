package main

import (
	"encoding/json"
	"flag"
	"fmt"
	"go/ast"
	"go/parser"
	"go/token"
	"os"
	"path/filepath"
	"sort"
	"strings"
)

// extract-shared: the access model of property C18, extracted from the sources (go/parser + go/ast over
// all non-test files of the repository, no type checker):
//   - writes to package-level variables (assignment, op-assignment, ++/--, copy/delete/clear/append target)
//     in any function other than init / package initialisers;
//   - writes to receiver fields in methods of codec types (types that have Encode and Decode methods);
//   - writes to receiver fields in methods of parameter types (types that have GetParameter and
//     SetParameter), classified as conditional (inside an if / switch / loop body) or unconditional;
//   - a conservative name-based call graph, used to attribute every write to the registered codecs'
//     Encode / Decode entry points that can reach it.
func init() { register("extract-shared", runExtractShared) }

type swrite struct {
	Kind   string `json:"kind"` // global | codecfield | paramfield
	Loc    string `json:"loc"`
	Func   string `json:"func"`
	Pkg    string `json:"pkg"`
	Pos    string `json:"pos"`
	Cond   bool   `json:"cond"`   // inside a conditional / loop body
	Guard  bool   `json:"guard"`  // function body locks a mutex or runs under sync.Once
	InInit bool   `json:"ininit"` // only reachable from init()
}

func rootIdent(e ast.Expr) *ast.Ident {
	for {
		switch x := e.(type) {
		case *ast.Ident:
			return x
		case *ast.IndexExpr:
			e = x.X
		case *ast.SelectorExpr:
			e = x.X
		case *ast.StarExpr:
			e = x.X
		case *ast.ParenExpr:
			e = x.X
		case *ast.SliceExpr:
			e = x.X
		default:
			return nil
		}
	}
}

func runExtractShared(args []string) error {
	fs := flag.NewFlagSet("extract-shared", flag.ExitOnError)
	repo := fs.String("repo", "/repo", "repository root")
	out := fs.String("out", "", "model output (JSON)")
	fs.Parse(args)
	fset := token.NewFileSet()
	dirs := map[string]bool{}
	filepath.Walk(*repo, func(p string, info os.FileInfo, err error) error {
		if err != nil {
			return nil
		}
		if info.IsDir() && (info.Name() == ".git" || info.Name() == "examples" || info.Name() == "cmd" || info.Name() == "testdata" || info.Name() == "test-data") {
			return filepath.SkipDir
		}
		if !info.IsDir() && strings.HasSuffix(p, ".go") && !strings.HasSuffix(p, "_test.go") {
			dirs[filepath.Dir(p)] = true
		}
		return nil
	})
	type fn struct {
		pkg, name, recv string
		calls           map[string]bool // callee name -> called (plain call in the same package)
		selCalls        map[string]bool // callee name called through a selector (method or imported package)
		imports         map[string]bool // repository packages imported by the file
		writes          []swrite
		guard           bool
	}
	var funcs []*fn
	methodsOf := map[string]map[string]bool{} // pkg.Type -> method names
	type pfile struct {
		pkg  string
		file *ast.File
		glob map[string]bool
	}
	var files []pfile
	var dlist []string
	for d := range dirs {
		dlist = append(dlist, d)
	}
	sort.Strings(dlist)
	for _, d := range dlist {
		pkgs, err := parser.ParseDir(fset, d, func(fi os.FileInfo) bool { return !strings.HasSuffix(fi.Name(), "_test.go") }, parser.ParseComments)
		if err != nil {
			return err
		}
		rel, _ := filepath.Rel(*repo, d)
		for _, pkg := range pkgs {
			globals := map[string]bool{}
			for _, f := range pkg.Files {
				// files excluded from the default build (e.g. //go:build verif) are not part of the shipped library
				skip := false
				for _, cg := range f.Comments {
					if cg.Pos() < f.Package && strings.Contains(cg.Text(), "go:build verif") {
						skip = true
					}
				}
				if skip {
					continue
				}
				for _, decl := range f.Decls {
					if gd, ok := decl.(*ast.GenDecl); ok && gd.Tok == token.VAR {
						for _, s := range gd.Specs {
							for _, n := range s.(*ast.ValueSpec).Names {
								if n.Name != "_" {
									globals[n.Name] = true
								}
							}
						}
					}
				}
				files = append(files, pfile{rel, f, globals})
			}
		}
	}
	for _, pf := range files {
		for _, decl := range pf.file.Decls {
			fd, ok := decl.(*ast.FuncDecl)
			if !ok {
				continue
			}
			recv, recvName := "", ""
			if fd.Recv != nil && len(fd.Recv.List) > 0 {
				t := fd.Recv.List[0].Type
				if s, ok := t.(*ast.StarExpr); ok {
					t = s.X
				}
				if id, ok := t.(*ast.Ident); ok {
					recv = id.Name
				}
				if len(fd.Recv.List[0].Names) > 0 {
					recvName = fd.Recv.List[0].Names[0].Name
				}
				k := pf.pkg + "." + recv
				if methodsOf[k] == nil {
					methodsOf[k] = map[string]bool{}
				}
				methodsOf[k][fd.Name.Name] = true
			}
			if fd.Body == nil {
				continue
			}
			imps := map[string]bool{pf.pkg: true}
			for _, im := range pf.file.Imports {
				path := strings.Trim(im.Path.Value, `"`)
				if i := strings.Index(path, "go-dicom-codecs/"); i >= 0 {
					imps[path[i+len("go-dicom-codecs/"):]] = true
				}
			}
			f := &fn{pkg: pf.pkg, name: fd.Name.Name, recv: recv, calls: map[string]bool{}, selCalls: map[string]bool{}, imports: imps}
			funcs = append(funcs, f)
			// locally declared names shadow package-level ones
			local := map[string]bool{}
			if fd.Type.Params != nil {
				for _, p := range fd.Type.Params.List {
					for _, n := range p.Names {
						local[n.Name] = true
					}
				}
			}
			if fd.Type.Results != nil {
				for _, p := range fd.Type.Results.List {
					for _, n := range p.Names {
						local[n.Name] = true
					}
				}
			}
			ast.Inspect(fd.Body, func(n ast.Node) bool {
				switch s := n.(type) {
				case *ast.AssignStmt:
					if s.Tok == token.DEFINE {
						for _, l := range s.Lhs {
							if id, ok := l.(*ast.Ident); ok {
								local[id.Name] = true
							}
						}
					}
				case *ast.ValueSpec:
					for _, nm := range s.Names {
						local[nm.Name] = true
					}
				case *ast.RangeStmt:
					if s.Tok == token.DEFINE {
						for _, e := range []ast.Expr{s.Key, s.Value} {
							if id, ok := e.(*ast.Ident); ok {
								local[id.Name] = true
							}
						}
					}
				}
				return true
			})
			var visit func(n ast.Node, cond bool)
			record := func(lhs ast.Expr, pos token.Pos, cond bool) {
				id := rootIdent(lhs)
				if id == nil {
					return
				}
				p := fset.Position(pos)
				where := fmt.Sprintf("%s:%d", strings.TrimPrefix(p.Filename, *repo+"/"), p.Line)
				if pf.glob[id.Name] && !local[id.Name] {
					f.writes = append(f.writes, swrite{Kind: "global", Loc: pf.pkg + "." + id.Name, Func: fnName(pf.pkg, recv, fd.Name.Name), Pkg: pf.pkg, Pos: where, Cond: cond})
				}
				if recvName != "" && id.Name == recvName && ast.Expr(id) != lhs {
					field := "?"
					if se, ok := lhs.(*ast.SelectorExpr); ok {
						field = se.Sel.Name
					} else if ie, ok := lhs.(*ast.IndexExpr); ok {
						if se, ok := ie.X.(*ast.SelectorExpr); ok {
							field = se.Sel.Name
						}
					}
					f.writes = append(f.writes, swrite{Kind: "recvfield", Loc: pf.pkg + "." + recv + "." + field, Func: fnName(pf.pkg, recv, fd.Name.Name), Pkg: pf.pkg, Pos: where, Cond: cond})
				}
			}
			visit = func(n ast.Node, cond bool) {
				if n == nil {
					return
				}
				switch s := n.(type) {
				case *ast.AssignStmt:
					if s.Tok != token.DEFINE {
						for _, l := range s.Lhs {
							record(l, s.Pos(), cond)
						}
					}
					for _, r := range s.Rhs {
						visit(r, cond)
					}
					return
				case *ast.IncDecStmt:
					record(s.X, s.Pos(), cond)
					return
				case *ast.CallExpr:
					switch fun := s.Fun.(type) {
					case *ast.Ident:
						f.calls[fun.Name] = true
						if (fun.Name == "copy" || fun.Name == "delete" || fun.Name == "clear") && len(s.Args) > 0 {
							record(s.Args[0], s.Pos(), cond)
						}
					case *ast.SelectorExpr:
						f.selCalls[fun.Sel.Name] = true
						if fun.Sel.Name == "Lock" || fun.Sel.Name == "Do" || fun.Sel.Name == "RLock" {
							f.guard = true
						}
					}
					for _, a := range s.Args {
						visit(a, cond)
					}
					visit(s.Fun, cond)
					return
				case *ast.IfStmt:
					visit(s.Init, cond)
					visit(s.Cond, cond)
					visit(s.Body, true)
					visit(s.Else, true)
					return
				case *ast.ForStmt:
					visit(s.Init, cond)
					visit(s.Body, true)
					visit(s.Post, true)
					return
				case *ast.RangeStmt:
					visit(s.Body, true)
					return
				case *ast.SwitchStmt:
					visit(s.Init, cond)
					visit(s.Body, true)
					return
				case *ast.TypeSwitchStmt:
					visit(s.Body, true)
					return
				case *ast.SelectStmt:
					visit(s.Body, true)
					return
				case *ast.FuncLit:
					visit(s.Body, true)
					return
				}
				ast.Inspect(n, func(c ast.Node) bool {
					if c == n || c == nil {
						return true
					}
					visit(c, cond)
					return false
				})
			}
			visit(fd.Body, false)
		}
	}
	// type classes
	isCodec := func(k string) bool {
		return methodsOf[k]["Encode"] && methodsOf[k]["Decode"] && methodsOf[k]["TransferSyntax"]
	}
	isParams := func(k string) bool { return methodsOf[k]["GetParameter"] && methodsOf[k]["SetParameter"] }
	// name-based call graph closure from a set of roots
	byName := map[string][]*fn{}
	for _, f := range funcs {
		byName[f.name] = append(byName[f.name], f)
	}
	reach := func(roots []*fn) map[*fn]bool {
		seen := map[*fn]bool{}
		stack := append([]*fn{}, roots...)
		for len(stack) > 0 {
			f := stack[len(stack)-1]
			stack = stack[:len(stack)-1]
			if seen[f] {
				continue
			}
			seen[f] = true
			for c := range f.calls { // plain calls resolve inside the package
				for _, g := range byName[c] {
					if g.name != "init" && g.pkg == f.pkg && g.recv == "" {
						stack = append(stack, g)
					}
				}
			}
			for c := range f.selCalls { // selector calls: any function or method of that name in the package or its imports
				for _, g := range byName[c] {
					if g.name != "init" && f.imports[g.pkg] {
						stack = append(stack, g)
					}
				}
			}
		}
		return seen
	}
	var initRoots []*fn
	for _, f := range funcs {
		if f.name == "init" && f.recv == "" {
			initRoots = append(initRoots, f)
		}
	}
	fromInit := reach(initRoots)
	type opModel struct {
		Codec  string   `json:"codec"` // package dir of the codec type
		Type   string   `json:"type"`
		Op     string   `json:"op"`
		Writes []swrite `json:"writes"`
	}
	var ops []opModel
	allEntryReach := map[*fn]bool{}
	for _, f := range funcs {
		k := f.pkg + "." + f.recv
		if f.recv != "" && isCodec(k) && (f.name == "Encode" || f.name == "Decode") {
			r := reach([]*fn{f})
			om := opModel{Codec: f.pkg, Type: f.recv, Op: f.name, Writes: []swrite{}}
			for g := range r {
				allEntryReach[g] = true
				for _, w := range g.writes {
					w2 := w
					w2.Guard = g.guard
					switch {
					case w.Kind == "global":
						om.Writes = append(om.Writes, w2)
					case w.Kind == "recvfield" && isCodec(g.pkg+"."+g.recv):
						w2.Kind = "codecfield"
						om.Writes = append(om.Writes, w2)
					case w.Kind == "recvfield" && isParams(g.pkg+"."+g.recv) && g.name != "SetParameter" && !strings.HasPrefix(g.name, "With") && !strings.HasPrefix(g.name, "New"):
						w2.Kind = "paramfield"
						om.Writes = append(om.Writes, w2)
					}
				}
			}
			sort.Slice(om.Writes, func(i, j int) bool { return om.Writes[i].Pos < om.Writes[j].Pos })
			ops = append(ops, om)
		}
	}
	sort.Slice(ops, func(i, j int) bool { return ops[i].Codec+ops[i].Op < ops[j].Codec+ops[j].Op })
	// the schedule-independent static obligation: every non-init write to a package-level variable anywhere,
	// and every codec receiver-field write
	var obligations []swrite
	for _, f := range funcs {
		for _, w := range f.writes {
			if w.Kind == "global" && f.name != "init" {
				w2 := w
				w2.InInit = fromInit[f] && !allEntryReach[f]
				w2.Guard = f.guard
				obligations = append(obligations, w2)
			}
			if w.Kind == "recvfield" && isCodec(f.pkg+"."+f.recv) {
				w2 := w
				w2.Kind = "codecfield"
				obligations = append(obligations, w2)
			}
		}
	}
	sort.Slice(obligations, func(i, j int) bool { return obligations[i].Pos < obligations[j].Pos })
	// ndjson: one "op" line per codec entry point (deduplicated writes), one "static" line per obligation
	var sb strings.Builder
	for _, o := range ops {
		seen := map[string]bool{}
		var ws []string
		for _, w := range o.Writes {
			k := fmt.Sprintf(`{"kind":"%s","loc":"%s","cond":%t,"guard":%t}`, w.Kind, w.Loc, w.Cond, w.Guard)
			if !seen[k] {
				seen[k] = true
				ws = append(ws, k)
			}
		}
		fmt.Fprintf(&sb, `{"t":"op","codec":"%s","type":"%s","op":"%s","w":[%s]}`+"\n", o.Codec, o.Type, o.Op, strings.Join(ws, ","))
	}
	for _, w := range obligations {
		b, _ := json.Marshal(w)
		fmt.Fprintf(&sb, `{"t":"static","w":%s}`+"\n", b)
	}
	fmt.Fprintf(&sb, `{"t":"meta","functions":%d,"files":%d}`+"\n", len(funcs), len(files))
	if *out == "" {
		fmt.Print(sb.String())
		return nil
	}
	return os.WriteFile(*out, []byte(sb.String()), 0o644)
}

func fnName(pkg, recv, name string) string {
	if recv != "" {
		return pkg + ".(" + recv + ")." + name
	}
	return pkg + "." + name
}
