package main

import (
	"github.com/cocosip/go-dicom/pkg/imaging/imagetypes"
)

// PD is the harness's own imagetypes.PixelData: it records every AddFrame and can fail or
// gate GetFrame/AddFrame (the gates are the frame-boundary scheduling points of C18).
type PD struct {
	frames [][]byte
	info   *imagetypes.FrameInfo
	onGet  func(i int)
	onAdd  func(i int)
	copies bool // AddFrame stores a private copy (the reference runs of C18: their result must not depend on buffer reuse)
}

func NewPD(info *imagetypes.FrameInfo, frames ...[]byte) *PD {
	return &PD{info: info, frames: frames}
}

func (p *PD) GetFrame(i int) ([]byte, error) {
	if p.onGet != nil {
		p.onGet(i)
	}
	if i < 0 || i >= len(p.frames) {
		return nil, nil
	}
	return p.frames[i], nil
}

func (p *PD) AddFrame(b []byte) error {
	if p.onAdd != nil {
		p.onAdd(len(p.frames))
	}
	if p.copies {
		b = append([]byte{}, b...)
	}
	p.frames = append(p.frames, b)
	return nil
}

func (p *PD) FrameCount() int                     { return len(p.frames) }
func (p *PD) GetFrameInfo() *imagetypes.FrameInfo { return p.info }
func (p *PD) IsEncapsulated() bool                { return false }

func frameInfo(rows, cols, ba, bs, spp, pixrep, planar int) *imagetypes.FrameInfo {
	pi := "MONOCHROME2"
	if spp == 3 {
		pi = "RGB"
	}
	return &imagetypes.FrameInfo{
		Width: uint16(cols), Height: uint16(rows),
		BitsAllocated: uint16(ba), BitsStored: uint16(bs), HighBit: uint16(bs - 1),
		SamplesPerPixel: uint16(spp), PixelRepresentation: uint16(pixrep),
		PlanarConfiguration: uint16(planar), PhotometricInterpretation: pi,
	}
}
