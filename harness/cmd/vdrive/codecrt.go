package main

import (
	"encoding/json"
	"fmt"
	"math/rand"

	"github.com/cocosip/go-dicom/pkg/dicom/transfer"
	"github.com/cocosip/go-dicom/pkg/imaging/codec"
	"github.com/cocosip/go-dicom/pkg/imaging/imagetypes"

	_ "github.com/cocosip/go-dicom-codecs/jpeg/baseline"
	_ "github.com/cocosip/go-dicom-codecs/jpeg/extended"
	_ "github.com/cocosip/go-dicom-codecs/jpeg/lossless"
	_ "github.com/cocosip/go-dicom-codecs/jpeg/lossless14sv1"
	"github.com/cocosip/go-dicom-codecs/jpeg2000/htj2k"
	j2kll "github.com/cocosip/go-dicom-codecs/jpeg2000/lossless"
	_ "github.com/cocosip/go-dicom-codecs/jpeg2000/lossy"
	_ "github.com/cocosip/go-dicom-codecs/jpegls/lossless"
	_ "github.com/cocosip/go-dicom-codecs/jpegls/nearlossless"
)

// Registered transfer syntaxes by the short names used in scenarios and traces.
var tsUID = map[string]string{
	"rle": "1.2.840.10008.1.2.5",
	"50":  "1.2.840.10008.1.2.4.50", "51": "1.2.840.10008.1.2.4.51", "57": "1.2.840.10008.1.2.4.57",
	"70": "1.2.840.10008.1.2.4.70", "80": "1.2.840.10008.1.2.4.80", "81": "1.2.840.10008.1.2.4.81",
	"90": "1.2.840.10008.1.2.4.90", "91": "1.2.840.10008.1.2.4.91", "92": "1.2.840.10008.1.2.4.92",
	"93": "1.2.840.10008.1.2.4.93", "201": "1.2.840.10008.1.2.4.201", "202": "1.2.840.10008.1.2.4.202",
	"203": "1.2.840.10008.1.2.4.203",
}

var allTS = []string{"rle", "50", "51", "57", "70", "80", "81", "90", "91", "92", "93", "201", "202", "203"}
var losslessTS = map[string]bool{"rle": true, "57": true, "70": true, "80": true, "90": true, "92": true, "201": true, "202": true}

func getCodec(ts string) (codec.Codec, error) {
	syn, err := transfer.Parse(tsUID[ts])
	if err != nil {
		return nil, err
	}
	c, ok := codec.GetGlobalRegistry().GetCodec(syn)
	if !ok {
		return nil, fmt.Errorf("no codec registered for %s", ts)
	}
	return c, nil
}

// paramSpec is a serialisable description of a parameters object.
type paramSpec struct {
	Kind   string         `json:"kind"` // nil | typed | generic | default (GetDefaultParameters)
	Fields map[string]any `json:"fields,omitempty"`
}

func (ps paramSpec) build(ts string, c codec.Codec) codec.Parameters {
	switch ps.Kind {
	case "nil", "":
		return nil
	case "default":
		return c.GetDefaultParameters()
	case "generic":
		p := codec.NewBaseParameters()
		for k, v := range ps.Fields {
			p.SetParameter(k, normParam(v))
		}
		return p
	case "typed":
		switch ts {
		case "90", "92":
			p := j2kll.NewLosslessParameters()
			for k, v := range ps.Fields {
				p.SetParameter(k, normParam(v))
			}
			return p
		case "201", "202", "203":
			p := htj2k.NewHTJ2KLosslessParameters()
			if ts == "203" {
				p = htj2k.NewHTJ2KParameters()
			}
			for k, v := range ps.Fields {
				p.SetParameter(k, normParam(v))
			}
			return p
		}
		p := c.GetDefaultParameters()
		for k, v := range ps.Fields {
			p.SetParameter(k, normParam(v))
		}
		return p
	}
	return nil
}

// JSON numbers arrive as float64; the codecs type-switch on int / []int / bool / float64.
func normParam(v any) any {
	switch x := v.(type) {
	case float64:
		if x == float64(int(x)) {
			return int(x)
		}
		return x
	case []any:
		out := make([]int, len(x))
		for i, e := range x {
			if f, ok := e.(float64); ok {
				out[i] = int(f)
			}
		}
		return out
	case ratioF:
		return float64(x)
	}
	return v
}

type ratioF float64 // forces a float64 targetRatio even for integral values

func infoJSON(fi *imagetypes.FrameInfo) json.RawMessage {
	return json.RawMessage(fmt.Sprintf(`{"rows":%d,"cols":%d,"ba":%d,"bs":%d,"spp":%d,"pixrep":%d,"planar":%d}`,
		fi.Height, fi.Width, fi.BitsAllocated, fi.BitsStored, fi.SamplesPerPixel, fi.PixelRepresentation, fi.PlanarConfiguration))
}

func concat(frames [][]byte) []byte {
	var b []byte
	for _, f := range frames {
		b = append(b, f...)
	}
	return b
}

func lens(frames [][]byte) []int {
	l := make([]int, len(frames))
	for i, f := range frames {
		l[i] = len(f)
	}
	return l
}

func shas(frames [][]byte) []string {
	s := make([]string, len(frames))
	for i, f := range frames {
		s[i] = sha(f)
	}
	return s
}

// codecRoundTrip records Encode (cenc) and Decode (cdec) of a registered codec on a frame sequence.
func codecRoundTrip(t *TraceWriter, ts string, fi *imagetypes.FrameInfo, frames [][]byte, ps paramSpec, cls string) (streams, out [][]byte) {
	c, err := getCodec(ts)
	if err != nil {
		t.Event("cenc", "ts", ts, "info", infoJSON(fi), "err", "harness: "+err.Error())
		return nil, nil
	}
	src := NewPD(fi, frames...)
	enc := NewPD(fi)
	params := ps.build(ts, c)
	pan, site, class := protect(func() { err = c.Encode(src, enc, params) })
	es := errStr(err)
	if pan {
		es = "panic: " + site + ": " + class
	}
	pj, _ := json.Marshal(ps)
	total := 0
	for _, f := range frames {
		total += len(f)
	}
	big := total > digestThreshold
	kv := []any{"ts", ts, "info", infoJSON(fi), "params", json.RawMessage(pj), "cls", cls, "nin", len(frames), "nout", len(enc.frames), "err", es}
	if big {
		kv = append(kv, "src", []byte{}, "srcsha", shas(frames))
	} else {
		kv = append(kv, "src", concat(frames), "srcsha", []string{})
	}
	hdr := []byte{}
	if len(enc.frames) > 0 {
		hdr = enc.frames[0]
		if len(hdr) > 160 {
			hdr = hdr[:160]
		}
	}
	kv = append(kv, "hdr", hdr, "hasmin", hasMinSample(fi, frames))
	t.Event("cenc", kv...)
	if es != "" {
		return nil, nil
	}
	dec := NewPD(fi)
	pan, site, class = protect(func() { err = c.Decode(NewPD(fi, enc.frames...), dec, params) })
	es = errStr(err)
	if pan {
		es = "panic: " + site + ": " + class
	}
	kv = []any{"nin", len(enc.frames), "nout", len(dec.frames), "lens", lens(dec.frames), "err", es}
	if big {
		kv = append(kv, "out", []byte{}, "outsha", shas(dec.frames))
	} else {
		kv = append(kv, "out", concat(dec.frames), "outsha", []string{})
	}
	t.Event("cdec", kv...)
	return enc.frames, dec.frames
}

// hasMinSample reports (as 0/1) whether some sample equals the most negative value of the
// BitsAllocated-wide range after the DC level shift (container 0 for unsigned data, the
// two's-complement minimum for signed data). A logged fact about the input, used only to
// classify rejections.
func hasMinSample(fi *imagetypes.FrameInfo, frames [][]byte) int {
	ba := int(fi.BitsAllocated)
	want := 0
	if fi.PixelRepresentation != 0 {
		want = 1 << (ba - 1)
	}
	for _, f := range frames {
		if ba <= 8 {
			for _, b := range f {
				if int(b) == want {
					return 1
				}
			}
		} else {
			for i := 0; i+1 < len(f); i += 2 {
				if int(f[i])|int(f[i+1])<<8 == want {
					return 1
				}
			}
		}
	}
	return 0
}

// genFrame: a native frame for FrameInfo; sample values occupy the low BitsStored bits.
func genFrame(r *rand.Rand, fi *imagetypes.FrameInfo, cls string) []byte {
	w, h, c := int(fi.Width), int(fi.Height), int(fi.SamplesPerPixel)
	bs := int(fi.BitsStored)
	s := genJ2KSamples(r, cls, w, h, c, bs)
	if fi.BitsAllocated <= 8 {
		return packSamples(s, 8)
	}
	return packSamples(s, 16)
}
