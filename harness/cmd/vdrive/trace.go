package main

import (
	"bufio"
	"crypto/sha256"
	"encoding/hex"
	"encoding/json"
	"fmt"
	"os"
	"runtime"
	"strconv"
	"strings"
)

// TraceWriter writes one JSON object per line. Fields are added in call order.
type TraceWriter struct {
	f   *os.File
	w   *bufio.Writer
	scn int
	k   int
	buf []byte
	n   int
}

// onlyScn >= 0 (env VERIF_ONLY): record just that scenario; everything is still executed so
// that seeded generators stay in step (replay of a single rejected scenario).
var onlyScn = func() int {
	if v := os.Getenv("VERIF_ONLY"); v != "" {
		n, err := strconv.Atoi(v)
		if err == nil {
			return n
		}
	}
	return -1
}()

func NewTrace(path string) (*TraceWriter, error) {
	f, err := os.Create(path)
	if err != nil {
		return nil, err
	}
	return &TraceWriter{f: f, w: bufio.NewWriterSize(f, 1<<20)}, nil
}

func (t *TraceWriter) Close() error {
	if err := t.w.Flush(); err != nil {
		return err
	}
	return t.f.Close()
}

// Reset starts scenario scn.
func (t *TraceWriter) Reset(scn int, kv ...any) {
	t.scn, t.k = scn, 0
	t.Event("reset", kv...)
}

// Event writes {"scn":..,"k":..,"ev":name, kv...}; values: int, string, bool, []byte (int array),
// []int, json.RawMessage, or anything json.Marshal accepts.
func (t *TraceWriter) Event(name string, kv ...any) {
	if onlyScn >= 0 && t.scn != onlyScn {
		t.k++
		return
	}
	b := t.buf[:0]
	b = append(b, `{"scn":`...)
	b = strconv.AppendInt(b, int64(t.scn), 10)
	b = append(b, `,"k":`...)
	b = strconv.AppendInt(b, int64(t.k), 10)
	b = append(b, `,"ev":"`...)
	b = append(b, name...)
	b = append(b, '"')
	for i := 0; i+1 < len(kv); i += 2 {
		b = append(b, ',', '"')
		b = append(b, kv[i].(string)...)
		b = append(b, '"', ':')
		b = appendValue(b, kv[i+1])
	}
	b = append(b, '}', '\n')
	t.w.Write(b)
	t.buf = b
	t.k++
	t.n++
}

func appendValue(b []byte, v any) []byte {
	switch x := v.(type) {
	case int:
		return strconv.AppendInt(b, int64(x), 10)
	case int64:
		return strconv.AppendInt(b, x, 10)
	case bool:
		if x {
			return append(b, "true"...)
		}
		return append(b, "false"...)
	case string:
		q, _ := json.Marshal(x)
		return append(b, q...)
	case []byte:
		b = append(b, '[')
		for i, c := range x {
			if i > 0 {
				b = append(b, ',')
			}
			b = strconv.AppendInt(b, int64(c), 10)
		}
		return append(b, ']')
	case []int:
		b = append(b, '[')
		for i, c := range x {
			if i > 0 {
				b = append(b, ',')
			}
			b = strconv.AppendInt(b, int64(c), 10)
		}
		return append(b, ']')
	case []int32:
		b = append(b, '[')
		for i, c := range x {
			if i > 0 {
				b = append(b, ',')
			}
			b = strconv.AppendInt(b, int64(c), 10)
		}
		return append(b, ']')
	case json.RawMessage:
		return append(b, x...)
	default:
		q, err := json.Marshal(x)
		if err != nil {
			panic(err)
		}
		return append(b, q...)
	}
}

func sha(b []byte) string {
	h := sha256.Sum256(b)
	return hex.EncodeToString(h[:])
}

func errStr(err error) string {
	if err == nil {
		return ""
	}
	s := err.Error()
	if s == "" {
		return "error"
	}
	return s
}

// protect runs f and converts a panic into (site, class) strings: the innermost frame that lies
// in the library under test and the runtime error class (no line numbers: keys must be stable).
func protect(f func()) (panicked bool, site, class string) {
	defer func() {
		if r := recover(); r != nil {
			panicked = true
			class = classifyPanic(r)
			site = panicSite()
		}
	}()
	f()
	return
}

func classifyPanic(r any) string {
	s := fmt.Sprint(r)
	switch {
	case strings.Contains(s, "index out of range"):
		return "index out of range"
	case strings.Contains(s, "slice bounds out of range"):
		return "slice bounds out of range"
	case strings.Contains(s, "divide by zero"):
		return "integer divide by zero"
	case strings.Contains(s, "nil pointer"):
		return "nil pointer dereference"
	case strings.Contains(s, "makeslice"):
		return "makeslice"
	case strings.Contains(s, "negative shift"):
		return "negative shift amount"
	case strings.Contains(s, "out of memory"):
		return "out of memory"
	}
	if len(s) > 60 {
		s = s[:60]
	}
	return s
}

func panicSite() string {
	pcs := make([]uintptr, 64)
	n := runtime.Callers(3, pcs)
	frames := runtime.CallersFrames(pcs[:n])
	for {
		fr, more := frames.Next()
		if strings.Contains(fr.Function, "go-dicom-codecs") {
			fn := fr.Function
			if i := strings.Index(fn, "go-dicom-codecs/"); i >= 0 {
				fn = fn[i+len("go-dicom-codecs/"):]
			}
			return fn
		}
		if !more {
			break
		}
	}
	return "unknown"
}
