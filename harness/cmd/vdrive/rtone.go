package main

import (
	"encoding/json"
	"flag"
	"fmt"
	"math/rand"
)

func init() { register("rtone", runRTOne) }

// rtone: run one explicit case (debugging aid; also used to minimise rejected scenarios)
func runRTOne(args []string) error {
	fs := flag.NewFlagSet("rtone", flag.ExitOnError)
	cs := fs.String("case", "", "rtCase JSON")
	seed := fs.Int64("seed", 1, "content seed")
	reps := fs.Int("reps", 1, "number of content seeds to try")
	dump := fs.Bool("dump", false, "print failing streams")
	always := fs.Bool("stream", false, "print every stream")
	fs.Parse(args)
	var c rtCase
	if err := json.Unmarshal([]byte(*cs), &c); err != nil {
		return err
	}
	bad := 0
	for i := 0; i < *reps; i++ {
		r := rand.New(rand.NewSource(*seed + int64(i)))
		var src []int
		if c.API == "jlsnear" {
			src = genNearSamples(r, c.Cls, c.W, c.H, c.C, (1<<c.P)-1, c.Near)
		} else {
			src = genJ2KSamples(r, c.Cls, c.W, c.H, c.C, c.P)
		}
		pix := packSamples(src, c.P)
		stream, err := rtEncode(c, pix)
		if err != nil {
			fmt.Println("encode error:", err)
			bad++
			continue
		}
		if *always {
			fmt.Printf("stream %x\n", stream)
		}
		d := rtDecode(c, stream)
		if d.err != nil {
			fmt.Println("decode error:", d.err)
			bad++
			continue
		}
		out := containerValues(d.pix, c.P)
		nd := 0
		first := -1
		for j := range src {
			if j >= len(out) || out[j] != src[j] {
				nd++
				if first < 0 {
					first = j
				}
			}
		}
		if nd > 0 {
			mx := 0
			for j := range src {
				if j < len(out) {
					d := out[j] - src[j]
					if d < 0 {
						d = -d
					}
					if d > mx {
						mx = d
					}
				}
			}
			fmt.Printf("max abs error %d\n", mx)
			bad++
			if *dump {
				fmt.Printf("stream %x\n", stream)
			}
			fmt.Printf("seed %d: %d of %d samples differ, first at %d (src %d out %d) streamlen %d\n", *seed+int64(i), nd, len(src), first, src[first], out[min(first, len(out)-1)], len(stream))
		}
	}
	fmt.Printf("rtone: bad=%d of %d\n", bad, *reps)
	return nil
}
