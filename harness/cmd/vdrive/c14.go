package main

import (
	"encoding/json"
	"fmt"
	"math/rand"

	jls "github.com/cocosip/go-dicom-codecs/jpegls/lossless"
	jlsn "github.com/cocosip/go-dicom-codecs/jpegls/nearlossless"
)

func init() { register("c14", runC14) }

// one JPEG-LS conformance record: the stream of the primary encoder, the library's own decode, the other
// encoder's bytes (NEAR = 0) and the other package's decode of the same stream.
func jlsRecord(t *TraceWriter, w, h, c, p, near int, api string, src []int, cls string) {
	pix := packSamples(src, p)
	var stream, stream2 []byte
	var out, xout []int
	es := ""
	pan, site, class := protect(func() {
		var err error
		if api == "jls" {
			stream, err = jls.Encode(pix, w, h, c, p)
			if err == nil {
				stream2, err = jlsn.Encode(pix, w, h, c, p, 0)
			}
		} else {
			stream, err = jlsn.Encode(pix, w, h, c, p, near)
			if err == nil && near == 0 {
				stream2, err = jls.Encode(pix, w, h, c, p)
			}
		}
		if err != nil {
			es = "encode: " + err.Error()
			return
		}
		var d1, d2 []byte
		var dw, dh, dc, dp int
		if api == "jls" {
			d1, dw, dh, dc, dp, err = jls.Decode(stream)
		} else {
			d1, dw, dh, dc, dp, _, err = jlsn.Decode(stream)
		}
		if err != nil {
			es = "decode: " + err.Error()
			return
		}
		if dw != w || dh != h || dc != c || dp != p {
			es = fmt.Sprintf("decode: geometry %dx%dx%d P=%d", dw, dh, dc, dp)
			return
		}
		out = containerValues(d1, p)
		// the other package's decoder on the same stream
		if api == "jls" {
			d2, _, _, _, _, _, err = jlsn.Decode(stream)
		} else if near == 0 {
			d2, _, _, _, _, err = jls.Decode(stream)
		}
		if err != nil {
			es = "cross-decode: " + err.Error()
			return
		}
		if d2 != nil {
			xout = containerValues(d2, p)
		}
	})
	if pan {
		es = "panic: " + site + ": " + class
	}
	cfg := json.RawMessage(fmt.Sprintf(`{"api":"%s","w":%d,"h":%d,"c":%d,"p":%d,"near":%d,"cls":"%s"}`, api, w, h, c, p, near, cls))
	if stream2 == nil {
		stream2 = []byte{}
	}
	if xout == nil {
		xout = []int{}
	}
	if out == nil {
		out = []int{}
	}
	t.Event("jls", "cfg", cfg, "src", src, "stream", stream, "out", out, "stream2", stream2, "xout", xout, "err", es)
}

func runC14(args []string) error {
	f := parseRT("c14", args)
	t, err := NewTrace(f.out)
	if err != nil {
		return err
	}
	defer t.Close()
	r := rand.New(rand.NewSource(f.seed))
	scn := 0
	// the finite Annex H.3 vector, through both encoders
	h3 := []int{0, 0, 90, 74, 68, 50, 43, 205, 64, 145, 145, 145, 100, 145, 145, 145}
	for _, api := range []string{"jls", "jlsnear"} {
		scn++
		t.Reset(scn)
		var st []byte
		var e error
		if api == "jls" {
			st, e = jls.Encode(packSamples(h3, 8), 4, 4, 1, 8)
		} else {
			st, e = jlsn.Encode(packSamples(h3, 8), 4, 4, 1, 8, 0)
		}
		if e != nil {
			st = []byte{}
		}
		t.Event("h3", "cfg", json.RawMessage(fmt.Sprintf(`{"api":"%s"}`, api)), "stream", st)
	}
	one := func(w, h, c, p, near int, api, cls string) {
		scn++
		t.Reset(scn)
		var src []int
		if near > 0 {
			src = genNearSamples(r, cls, w, h, c, (1<<p)-1, near)
		} else {
			src = genSamples(r, cls, w, h, c, (1<<p)-1)
		}
		jlsRecord(t, w, h, c, p, near, api, src, cls)
	}
	classes := []string{"noise", "twolevel", "runs", "runs_eol", "ramp", "const", "extremes", "smooth", "sparse", "bigjump", "rowconst", "lownoise", "alt", "terraces"}
	for i := 0; i < f.n; i++ {
		p := 2 + i%15
		c := []int{1, 1, 3}[r.Intn(3)]
		w, h := pickSize(r, f.maxdim)
		if c == 3 && w*h > 200 {
			w, h = 1+r.Intn(12), 1+r.Intn(12)
		}
		cls := classes[r.Intn(len(classes))]
		near := 0
		api := "jls"
		if i%2 == 1 {
			api = "jlsnear"
			mn := maxNear(p)
			near = []int{0, 1, 2, 3, 5, mn, r.Intn(mn + 1)}[r.Intn(7)]
			if near > mn {
				near = mn
			}
			if near > 0 {
				cls = append(nearClasses, "terraces")[r.Intn(len(nearClasses)+1)]
			}
		}
		if cls == "terraces" {
			scn++
			t.Reset(scn)
			jlsRecord(t, w, h, c, p, near, api, genTerraces(r, w, h, c, p, near), cls)
			continue
		}
		one(w, h, c, p, near, api, cls)
	}
	// long run-interruption histories: a flat image with sparse deviations of +-(NEAR+1)..: every deviation ends a run, so one
	// run-interruption context is updated well over RESET (64) times - the halving of A, N, Nn at N = RESET (A.23) and the
	// map bit of A.21 that depends on it are only reached by such histories (the bounded model reaches them with RESET = 3)
	nri := 40
	if f.maxdim > 20 {
		nri = 300
	}
	for i := 0; i < nri; i++ {
		p := []int{5, 7, 6, 5, 7, 4}[i%6] // small precisions: A starts near 2..4, so the context sits at k = 0 from the first reset on
		near := []int{0, 0, 0, 0, 0, 1}[i%6]
		api := []string{"jls", "jlsnear"}[i%2]
		if near > 0 {
			api = "jlsnear"
		}
		w, h := 36+r.Intn(12), 20+r.Intn(8)
		maxval := (1 << p) - 1
		base := maxval/3 + r.Intn(maxval/3)
		src := make([]int, w*h)
		for j := range src {
			src[j] = base
			if r.Intn(6) == 0 {
				d := near + 1 // quantised error +-1: keeps the run-interruption context at k = 0, where the map bit of A.21 depends on Nn
				if r.Intn(2) == 0 {
					d = -d
				}
				src[j] = base + d
			}
		}
		scn++
		t.Reset(scn)
		jlsRecord(t, w, h, 1, p, near, api, src, "runint")
	}
	fmt.Printf("c14: scenarios=%d events=%d\n", scn, t.n)
	return nil
}

// terraces: plateaus whose steps are exactly the default gradient thresholds T1/T2/T3 (+-1), so that
// the local gradients sit on the quantiser boundaries (A.3.3), with occasional outliers that need the
// escape (LIMIT) code.
func genTerraces(r *rand.Rand, w, h, c, p, near int) []int {
	maxval := (1 << p) - 1
	basic := []int{3, 7, 21}
	fact := 1
	if maxval >= 128 {
		fact = (min(maxval, 4095) + 128) / 256
	}
	var steps []int
	for i, b := range basic {
		t := fact*(b-[]int{2, 3, 4}[i]) + []int{2, 3, 4}[i] + []int{3, 5, 7}[i]*near
		if maxval < 128 {
			t = max([]int{2, 3, 4}[i], b/(256/(maxval+1))+[]int{3, 5, 7}[i]*near)
		}
		steps = append(steps, t-1, t, t+1, near, near+1)
	}
	s := make([]int, w*h*c)
	for y := 0; y < h; y++ {
		v := r.Intn(maxval + 1)
		for x := 0; x < w; x++ {
			if r.Intn(3) == 0 {
				d := steps[r.Intn(len(steps))]
				if r.Intn(2) == 0 {
					d = -d
				}
				v += d
			}
			if v < 0 {
				v = -v % (maxval + 1)
			}
			if v > maxval {
				v = maxval - (v-maxval)%(maxval+1)
			}
			for k := 0; k < c; k++ {
				s[(y*w+x)*c+k] = v
				if r.Intn(97) == 0 {
					s[(y*w+x)*c+k] = r.Intn(maxval + 1)
				}
			}
		}
		if y > 0 && r.Intn(2) == 0 { // vertical terraces too: copy the row above shifted by a threshold step
			d := steps[r.Intn(len(steps))]
			for x := 0; x < w*c; x++ {
				v := s[(y-1)*w*c+x] + d
				if v > maxval {
					v = maxval
				}
				s[y*w*c+x] = v
			}
		}
	}
	return s
}
