package main

import (
	"bufio"
	"encoding/json"
	"flag"
	"fmt"
	"math/rand"
	"os"

	jll "github.com/cocosip/go-dicom-codecs/jpeg/lossless"
	"github.com/cocosip/go-dicom-codecs/jpeg/lossless14sv1"
)

func init() { register("c13", runC13) }

type c13Scn struct {
	Stream  []int  `json:"stream"`
	Src     []int  `json:"src"`
	W       int    `json:"w"`
	H       int    `json:"h"`
	C       int    `json:"c"`
	P       int    `json:"p"`
	Pred    int    `json:"pred"`
	Td      []int  `json:"td"`
	Content string `json:"content"`
}

func runC13(args []string) error {
	fs := flag.NewFlagSet("c13", flag.ExitOnError)
	scnPath := fs.String("scn", "", "reference-encoder streams from TLC (ndjson)")
	outPath := fs.String("out", "", "trace output")
	seed := fs.Int64("seed", 1, "seed")
	n := fs.Int("n", 600, "forward cases")
	maxdim := fs.Int("maxdim", 12, "max dimension of forward cases")
	fs.Parse(args)
	t, err := NewTrace(*outPath)
	if err != nil {
		return err
	}
	defer t.Close()
	r := rand.New(rand.NewSource(*seed))
	scn := 0
	// forward: library encoders -> reference decoder (in TLC)
	classes := []string{"noise", "twolevel", "alt", "const", "ramp", "checker", "extremes", "smooth", "sparse", "bigjump", "lownoise"}
	fwd := func(c rtCase, src []int) {
		scn++
		t.Reset(scn)
		var st []byte
		var e error
		pan, site, class := protect(func() { st, e = rtEncode(c, packSamples(src, c.P)) })
		es := errStr(e)
		if pan {
			es = "panic: " + site + ": " + class
		}
		if st == nil {
			st = []byte{}
		}
		t.Event("fwd", "cfg", json.RawMessage(fmt.Sprintf(`{"api":"%s","w":%d,"h":%d,"c":%d,"p":%d,"pred":%d,"cls":"%s"}`, c.API, c.W, c.H, c.C, c.P, c.Pred, c.Cls)),
			"src", src, "stream", st, "err", es)
	}
	// exhaustive tiny images, every predictor + SV1
	for _, wh := range [][2]int{{1, 1}, {2, 1}, {1, 2}, {2, 2}} {
		allImages(wh[0]*wh[1], 3, func(s []int) {
			src := append([]int{}, s...)
			for pred := 0; pred <= 7; pred++ {
				fwd(rtCase{API: "jpegll", W: wh[0], H: wh[1], C: 1, P: 2, Pred: pred, Cls: "exh"}, src)
			}
			fwd(rtCase{API: "sv1", W: wh[0], H: wh[1], C: 1, P: 2, Pred: 1, Cls: "exh"}, src)
		})
	}
	nExh := scn
	for i := 0; i < *n; i++ {
		p := 2 + i%15
		c := []int{1, 3}[r.Intn(2)]
		w, h := pickSize(r, *maxdim)
		cls := classes[r.Intn(len(classes))]
		pred := r.Intn(9)
		api := "jpegll"
		if pred == 8 {
			api, pred = "sv1", 1
		}
		fwd(rtCase{API: api, W: w, H: h, C: c, P: p, Pred: pred, Cls: cls}, genSamples(r, cls, w, h, c, (1<<p)-1))
	}
	nFwd := scn
	// reverse: reference-encoder streams -> library decoders
	if *scnPath != "" {
		f, err := os.Open(*scnPath)
		if err != nil {
			return err
		}
		sc := bufio.NewScanner(f)
		sc.Buffer(make([]byte, 1<<20), 1<<26)
		for sc.Scan() {
			var s c13Scn
			if err := json.Unmarshal(sc.Bytes(), &s); err != nil {
				return err
			}
			st := make([]byte, len(s.Stream))
			for i, v := range s.Stream {
				st[i] = byte(v)
			}
			apis := []string{"jpegll"}
			if s.Pred == 1 {
				apis = append(apis, "sv1")
			}
			for _, api := range apis {
				scn++
				t.Reset(scn)
				var pix []byte
				var w, h, c, p int
				var e error
				pan, site, class := protect(func() {
					if api == "jpegll" {
						pix, w, h, c, p, e = jll.Decode(append([]byte{}, st...))
					} else {
						pix, w, h, c, p, e = lossless14sv1.Decode(append([]byte{}, st...))
					}
				})
				es := errStr(e)
				if pan {
					es = "panic: " + site + ": " + class
				}
				out := []int{}
				if es == "" {
					out = containerValues(pix, s.P)
				}
				t.Event("rev", "api", api, "w", s.W, "h", s.H, "c", s.C, "p", s.P, "pred", s.Pred, "td", s.Td, "content", s.Content,
					"geom", json.RawMessage(fmt.Sprintf(`{"w":%d,"h":%d,"c":%d,"p":%d}`, w, h, c, p)), "src", s.Src, "out", out, "err", es)
			}
		}
		f.Close()
	}
	fmt.Printf("c13: scenarios=%d exhaustive=%d forward=%d reverse=%d events=%d\n", scn, nExh, nFwd, scn-nFwd, t.n)
	return nil
}
