package main

import (
	"os"
	"encoding/json"
	"bufio"
	"fmt"
	"math/rand"
)

func init() { register("c16", runC16) }

// c16: every encoder over its parameter domain; only the encoded bytes are recorded ("frame" events);
// the strict walkers of spec/Markers.tla judge them.
func runC16(args []string) error {
	f := parseRT("c16", args)
	t, err := NewTrace(f.out)
	if err != nil {
		return err
	}
	defer t.Close()
	r := rand.New(rand.NewSource(f.seed))
	scn := 0
	frame := func(c rtCase, src []int) {
		scn++
		t.Reset(scn)
		var st []byte
		var e error
		pan, site, class := protect(func() { st, e = rtEncode(c, packSamples(src, c.P)) })
		es := errStr(e)
		if pan {
			es = "panic: " + site + ": " + class
		}
		if st == nil {
			st = []byte{}
		}
		t.Event("frame", "cfg", c.cfgFull(), "len", len(st), "stream", st, "err", es)
	}
	noiseish := []string{"noise", "noise", "noise", "twolevel", "extremes", "smooth", "sparse", "runs", "const", "bigjump"}
	sz := func() (int, int) {
		w, h := pickSize(r, f.maxdim)
		return w, h
	}
	per := f.n
	// JPEG DCT
	for i := 0; i < per; i++ {
		w, h := sz()
		c := []int{1, 3}[r.Intn(2)]
		q := 1 + r.Intn(100)
		cls := noiseish[r.Intn(len(noiseish))]
		frame(rtCase{API: "baseline", W: w, H: h, C: c, P: 8, Quality: q, Cls: cls}, genSamples(r, cls, w, h, c, 255))
		if i%2 == 0 {
			frame(rtCase{API: "extended", W: w, H: h, C: c, P: 8, Quality: q, Cls: cls}, genSamples(r, cls, w, h, c, 255))
		} else {
			frame(rtCase{API: "extended", W: w, H: h, C: 1, P: 12, Quality: q, Cls: cls}, genSamples(r, cls, w, h, 1, 4095))
		}
	}
	// lossless / SV1 / JPEG-LS
	for i := 0; i < per; i++ {
		w, h := sz()
		c := []int{1, 3}[r.Intn(2)]
		p := 2 + i%15
		cls := noiseish[r.Intn(len(noiseish))]
		pred := r.Intn(8)
		frame(rtCase{API: "jpegll", W: w, H: h, C: c, P: p, Pred: pred, Cls: cls}, genSamples(r, cls, w, h, c, (1<<p)-1))
		frame(rtCase{API: "sv1", W: w, H: h, C: c, P: p, Pred: 1, Cls: cls}, genSamples(r, cls, w, h, c, (1<<p)-1))
		frame(rtCase{API: "jls", W: w, H: h, C: c, P: p, Cls: cls}, genSamples(r, cls, w, h, c, (1<<p)-1))
		mn := maxNear(p)
		near := []int{0, 1, 2, 3, mn, r.Intn(mn + 1)}[r.Intn(6)]
		if near > mn {
			near = mn
		}
		frame(rtCase{API: "jlsnear", W: w, H: h, C: c, P: p, Near: near, Cls: cls}, genNearSamples(r, cls, w, h, c, (1<<p)-1, near))
	}
	// dimensions that need both bytes of a 16-bit field
	for _, g := range [][2]int{{256, 1}, {1, 256}, {257, 2}, {65535, 1}, {1, 65535}, {4096, 1}, {1, 300}} {
		if !f.big && g[0]*g[1] > 5000 {
			continue
		}
		frame(rtCase{API: "baseline", W: g[0], H: g[1], C: 1, P: 8, Quality: 90, Cls: "noise"}, genSamples(r, "noise", g[0], g[1], 1, 255))
		frame(rtCase{API: "extended", W: g[0], H: g[1], C: 1, P: 12, Quality: 90, Cls: "noise"}, genSamples(r, "noise", g[0], g[1], 1, 4095))
		frame(rtCase{API: "jpegll", W: g[0], H: g[1], C: 1, P: 12, Pred: 4, Cls: "noise"}, genSamples(r, "noise", g[0], g[1], 1, 4095))
		frame(rtCase{API: "sv1", W: g[0], H: g[1], C: 1, P: 8, Pred: 1, Cls: "noise"}, genSamples(r, "noise", g[0], g[1], 1, 255))
		frame(rtCase{API: "jls", W: g[0], H: g[1], C: 1, P: 8, Cls: "noise"}, genSamples(r, "noise", g[0], g[1], 1, 255))
		frame(rtCase{API: "jlsnear", W: g[0], H: g[1], C: 1, P: 8, Near: 2, Cls: "noise"}, genSamples(r, "noise", g[0], g[1], 1, 255))
		frame(rtCase{API: "j2k", Lossless: true, W: g[0], H: g[1], C: 1, P: 8, Levels: 2, CBW: 64, CBH: 64, Layers: 1, Cls: "noise"}, genSamples(r, "noise", g[0], g[1], 1, 255))
	}
	// JPEG 2000: reversible, irreversible, layered, all progressions, tiled, HT
	for i := 0; i < 2*per; i++ {
		c := randJ2K(r, i, f.maxdim)
		c.Cls = noiseish[r.Intn(len(noiseish))]
		if c.Cls == "runs" || c.Cls == "bigjump" {
			c.Cls = "noise"
		}
		switch i % 6 {
		case 1: // irreversible, no rate target
			c.Lossless = false
			c.Quality = 1 + r.Intn(100)
			c.Layers = 1
			if c.P < 2 {
				c.P = 8
			}
		case 2: // tiled (tile counts up to 64)
			nx, ny := 1+r.Intn(8), 1+r.Intn(8)
			c.TileW, c.TileH = (c.W+nx-1)/nx, (c.H+ny-1)/ny
			c.PrecW, c.PrecH = 0, 0
		case 3: // HTJ2K block coder
			c.HT = true
			c.Layers = 1
			c.Signed = false
			if c.P < 2 {
				c.P = 8
			}
			if c.CBW*c.CBH > 4096 || c.CBW > 64 || c.CBH > 64 {
				c.CBW, c.CBH = 64, 64
			}
			c.PrecW, c.PrecH = 0, 0
		case 4: // layered with a rate target and a final lossless layer
			c.Layers = 2 + r.Intn(4)
			c.Ratio = float64(2 + r.Intn(10))
			c.AppendLL = true
			c.PCRD = r.Intn(2) == 0
		case 5: // tiled + layered
			c.TileW, c.TileH = max(1, c.W/2), max(1, c.H/3)
			c.Layers = 2 + r.Intn(2)
			c.PrecW, c.PrecH = 0, 0
		}
		frame(c, genJ2KSamples(r, c.Cls, c.W, c.H, c.C, c.P))
	}
	// packet headers ending in 0xFF (see C04 'lenff')
	for _, wh := range [][2]int{{24, 10}, {10, 24}, {20, 12}, {16, 15}, {30, 8}, {12, 20}} {
		for k := 0; k < 40; k++ {
			c := rtCase{API: "j2k", Lossless: true, W: wh[0], H: wh[1], C: 1, P: 8, Levels: 0, CBW: 64, CBH: 64, Layers: 1, Cls: "noise"}
			frame(c, genJ2KSamples(r, "noise", c.W, c.H, 1, 8))
		}
	}
	// HTJ2K, CT/MR-like content: a textured object on an all-zero background.  All-zero code-blocks next to busy ones drive
	// the MEL / VLC / MagSgn byte streams of the HT cleanup pass to their extremes (long MEL runs, suffix bytes of all ones),
	// where the marker-avoidance rules of the three streams matter
	nObj := 40
	if f.big {
		nObj = 120
	}
	for i := 0; i < nObj; i++ {
		w, h := 128+r.Intn(129), 128+r.Intn(129)
		p := []int{8, 12, 16}[i%3]
		maxval := (1 << uint(p)) - 1
		s := make([]int, w*h)
		cx, cy, rad := w/2+r.Intn(w/4)-w/8, h/2+r.Intn(h/4)-h/8, min(w, h)/5+r.Intn(min(w, h)/6)
		for y := 0; y < h; y++ {
			for x := 0; x < w; x++ {
				if (x-cx)*(x-cx)+(y-cy)*(y-cy) < rad*rad {
					s[y*w+x] = maxval/3 + r.Intn(maxval/2)
					if (x/3+y/5)%7 == 0 {
						s[y*w+x] = maxval - r.Intn(3)
					}
				}
			}
		}
		cb := []int{64, 32, 16}[r.Intn(3)]
		frame(rtCase{API: "j2k", Lossless: true, HT: true, W: w, H: h, C: 1, P: p, Levels: []int{5, 3, 2, 0}[i%4], CBW: cb, CBH: cb, Layers: 1, Prog: []int{0, 2}[i%2], Cls: "object"}, s)
	}
	// reverse direction (informational): codestreams written by the TLA+ reference encoder (spec/J2kEnc.tla) decoded by the library
	nrev := 0
	if f.scn != "" {
		fh, err := os.Open(f.scn)
		if err != nil {
			return err
		}
		defer fh.Close()
		sc := bufio.NewScanner(fh)
		sc.Buffer(make([]byte, 1<<20), 1<<26)
		for sc.Scan() {
			var b struct {
				Stream, Src                   []int
				W, H, C, P, Levels, Cbw, Cbh, Tw, Th int
				Mct                           bool
				Cls                           string
			}
			if err := json.Unmarshal(sc.Bytes(), &b); err != nil {
				return fmt.Errorf("j2k scenario: %v", err)
			}
			st := make([]byte, len(b.Stream))
			for i, v := range b.Stream {
				st[i] = byte(v)
			}
			scn++
			t.Reset(scn)
			var d decResult
			pan, site, class := protect(func() { d = rtDecode(rtCase{API: "j2k"}, st) })
			es := errStr(d.err)
			if pan {
				es = "panic: " + site + ": " + class
			}
			out := []int{}
			if es == "" {
				out = containerValues(d.pix, b.P)
			}
			t.Event("j2krev", "cfg", json.RawMessage(fmt.Sprintf(`{"w":%d,"h":%d,"c":%d,"p":%d,"levels":%d,"cbw":%d,"cbh":%d,"mct":%v,"cls":"%s","tw":%d,"th":%d}`, b.W, b.H, b.C, b.P, b.Levels, b.Cbw, b.Cbh, b.Mct, b.Cls, b.Tw, b.Th)),
				"src", b.Src, "out", out, "gw", d.w, "gh", d.h, "gc", d.c, "gp", d.p, "err", es)
			nrev++
		}
	}
	fmt.Printf("c16: scenarios=%d j2krev=%d events=%d\n", scn, nrev, t.n)
	return nil
}
