module verifharness

go 1.25.0

require (
	github.com/cocosip/go-dicom v0.6.0
	github.com/cocosip/go-dicom-codecs v0.0.0
)

require (
	github.com/google/uuid v1.6.0 // indirect
	golang.org/x/text v0.40.0 // indirect
)

replace github.com/cocosip/go-dicom-codecs => /tmp/seedrepo.25853
