------------------------------ MODULE RleTrace ------------------------------
(***************************************************************************)
(* Trace specification for property C01: every recorded Encode / Decode of *)
(* rle.Codec must be a step the Annex G specification allows.              *)
(* Events (ndjson): reset | enc{info,src,stream,err} | dec{info,stream,out,err} *)
(*   | encd / decd (digest mode for frames too large to hold in TLC).      *)
(***************************************************************************)
EXTENDS RleFrame, Json
CONSTANT TraceFile
Tr == ndJsonDeserialize(TraceFile)
VARIABLES l, mode, src, nacc
tvars == <<l, mode, src, nacc>>
E == Tr[l]

EncReason ==
  IF E.err # "" THEN "error returned"
  ELSE LET h == HeaderReason(E.stream, Planes(E.info)) IN
       IF h # "ok" THEN h ELSE SegmentsReason(E.stream, E.info, E.src, 1)

DecReason ==
  IF E.err # "" THEN "error returned"
  ELSE IF E.out # Padded(src) THEN "decoded bytes differ" ELSE "ok"

\* digest mode: header validity in TLC, payload identity by SHA-256 computed in the harness
EncDReason ==
  IF E.err # "" THEN "error returned"
  ELSE IF E.len % 2 # 0 THEN "odd length"
  ELSE HeaderReason(E.head \o [i \in 1..(E.len - 64) |-> 0], Planes(E.info))
DecDReason ==
  IF E.err # "" THEN "error returned"
  ELSE IF E.outsha # E.wantsha THEN "decoded digest differs" ELSE "ok"

Reason == CASE E.ev = "enc" -> EncReason [] E.ev = "dec" -> DecReason
            [] E.ev = "encd" -> EncDReason [] E.ev = "decd" -> DecDReason [] OTHER -> "ok"

Init == l = 1 /\ mode = "run" /\ src = <<>> /\ nacc = 0
Step ==
  /\ l <= Len(Tr) /\ l' = l + 1
  /\ IF E.ev = "reset" THEN mode' = "run" /\ src' = <<>> /\ nacc' = nacc
     ELSE IF mode = "skip" THEN UNCHANGED <<mode, src, nacc>>
     ELSE LET r == Reason IN
          IF r = "ok"
          THEN /\ mode' = mode /\ nacc' = nacc + (IF E.ev \in {"dec", "decd"} THEN 1 ELSE 0)
               /\ src' = IF E.ev = "enc" THEN E.src ELSE src
          ELSE /\ PrintT("@@REJECT|" \o ToString(E.scn) \o "|" \o ToString(E.k) \o "|C01/" \o E.ev \o "/" \o r \o "|" \o ToString(E.info))
               /\ mode' = "skip" /\ UNCHANGED <<src, nacc>>
Finish == l = Len(Tr) + 1 /\ PrintT("@@ACCEPT|" \o ToString(nacc)) /\ PrintT("@@DONE|" \o ToString(Len(Tr)))
          /\ l' = l + 1 /\ UNCHANGED <<mode, src, nacc>>
TraceSpec == Init /\ [][Step \/ Finish]_tvars
=============================================================================
