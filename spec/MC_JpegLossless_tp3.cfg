SPECIFICATION Spec
CONSTANTS
  MaxW = 2
  MaxH = 2
  P = 3
  Comps = 1
INVARIANTS RoundTrip TableOK
CHECK_DEADLOCK FALSE
