------------------------------ MODULE MelTrace ------------------------------
(***************************************************************************)
(* Trace specification for the MEL coder of the HT cleanup pass (anchor of *)
(* C06).  Event "mel": a symbol string, the bytes htj2k.MELEncoder made of *)
(* it and the symbols htj2k.MELDecoder read back.  The reference decoder   *)
(* of module Mel must recover the symbols from the library's bytes and the *)
(* library's decoder must return them; both are reported as counts (C06    *)
(* itself is decided on images).                                           *)
(***************************************************************************)
EXTENDS Mel, Json
CONSTANT TraceFile
Tr == ndJsonDeserialize(TraceFile)
VARIABLES l, c
tvars == <<l, c>>
Ev == Tr[l]
Init == l = 1 /\ c = [agree |-> 0, enc |-> 0, dec |-> 0]
Step == /\ l <= Len(Tr) /\ l' = l + 1
        /\ IF Ev.ev # "mel" THEN UNCHANGED c
           ELSE LET encOK == Decode(Unpack(Ev.bytes, 1, <<>>), Len(Ev.syms)) = Ev.syms
                    decOK == Ev.out = Ev.syms IN
                /\ c' = [c EXCEPT !.agree = @ + (IF encOK /\ decOK THEN 1 ELSE 0), !.enc = @ + (IF encOK THEN 0 ELSE 1), !.dec = @ + (IF decOK THEN 0 ELSE 1)]
                /\ IF encOK /\ decOK THEN TRUE
                   ELSE PrintT("@@INFO|MEL " \o (IF encOK THEN "" ELSE "encoder bytes not decodable by the reference decoder; ") \o
                               (IF decOK THEN "" ELSE "library decoder does not return the symbols; ") \o "n=" \o ToString(Len(Ev.syms)))
Finish == /\ l = Len(Tr) + 1 /\ PrintT("@@ACCEPT|" \o ToString(c.agree)) /\ PrintT("@@DONE|" \o ToString(Len(Tr)))
          /\ PrintT("@@INFO|mel agree=" \o ToString(c.agree) \o " enc=" \o ToString(c.enc) \o " dec=" \o ToString(c.dec))
          /\ l' = l + 1 /\ UNCHANGED c
TraceSpec == Init /\ [][Step \/ Finish]_tvars
=============================================================================
