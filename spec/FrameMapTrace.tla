---------------------------- MODULE FrameMapTrace ----------------------------
(***************************************************************************)
(* Trace specification for C10.  solo events define the memo F (first      *)
(* execution of each (object kind, FrameInfo, op, frame, params) on its    *)
(* own); every later call event, whatever history precedes it, must map    *)
(* its input frames 1:1, in order, through F, leave the caller's buffers   *)
(* untouched, and (decode) return frames of the contractual size that, on  *)
(* lossless syntaxes, equal the source.                                    *)
(***************************************************************************)
EXTENDS Integers, Sequences, TLC, Json
CONSTANT TraceFile
Tr == ndJsonDeserialize(TraceFile)
VARIABLES l, mode, memo, nacc, prevop
tvars == <<l, mode, memo, nacc, prevop>>
E == Tr[l]

Key(ts, v, op, f, p) == ts \o "|" \o v \o "|" \o op \o "|" \o f \o "|" \o p
Known(k) == k \in DOMAIN memo

SoloReason ==
  IF E.err # "" THEN "solo call failed"
  ELSE IF E.op = "dec" /\ E.len # E.wantlen THEN "decoded size"
  ELSE IF E.op = "dec" /\ E.lossless = 1 /\ E.sha # E.srcsha THEN "lossless decode differs from source"
  ELSE "ok"

CallReason ==
  IF E.err # "" THEN "call failed"
  ELSE IF Len(E.outsha) # Len(E.frames) THEN "frame count"
  ELSE IF E.before # E.after THEN "caller buffer modified"
  ELSE IF \E i \in 1..Len(E.frames) : ~Known(Key(E.ts, E.v, E.op, E.frames[i], E.p)) THEN "ok"   \* solo failed: already reported
  ELSE IF \E i \in 1..Len(E.frames) :
            LET m == memo[Key(E.ts, E.v, E.op, E.frames[i], E.p)] IN E.outsha[i] # m.sha \/ E.outlen[i] # m.len
       THEN "output depends on history or position"
  ELSE "ok"

Reason == CASE E.ev = "solo" -> SoloReason [] E.ev = "call" -> CallReason [] OTHER -> "ok"
ObjKind(ts) == IF ts = "j2kdec" THEN "jpeg2000.Decoder" ELSE "codec " \o ts

Init == l = 1 /\ mode = "run" /\ memo = <<>> /\ nacc = 0 /\ prevop = "none"
Step ==
  /\ l <= Len(Tr) /\ l' = l + 1
  /\ IF E.ev = "reset" THEN mode' = "run" /\ prevop' = "none" /\ UNCHANGED <<memo, nacc>>
     ELSE IF mode = "skip" THEN UNCHANGED <<mode, memo, nacc, prevop>>
     ELSE LET r == Reason IN
          IF r = "ok"
          THEN /\ mode' = mode /\ nacc' = nacc + (IF E.ev = "call" THEN 1 ELSE 0)
               /\ prevop' = E.op
               /\ memo' = IF E.ev = "solo" /\ ~Known(Key(E.ts, E.v, E.op, E.f, E.p))
                          THEN (Key(E.ts, E.v, E.op, E.f, E.p) :> [sha |-> E.sha, len |-> E.len]) @@ memo ELSE memo
          ELSE /\ PrintT("@@REJECT|" \o ToString(E.scn) \o "|" \o ToString(E.k) \o "|C10/" \o E.ev \o "/" \o r \o "/"
                         \o ObjKind(E.ts) \o "/" \o E.op \o " after " \o prevop
                         \o "|" \o E.ts \o " " \o E.v \o " " \o E.p \o " err=" \o E.err)
               /\ mode' = "skip" /\ UNCHANGED <<memo, nacc, prevop>>
Finish == l = Len(Tr) + 1 /\ PrintT("@@ACCEPT|" \o ToString(nacc)) /\ PrintT("@@DONE|" \o ToString(Len(Tr)))
          /\ l' = l + 1 /\ UNCHANGED <<mode, memo, nacc, prevop>>
TraceSpec == Init /\ [][Step \/ Finish]_tvars
=============================================================================
