--------------------------------- MODULE T1 ---------------------------------
(***************************************************************************)
(* ITU-T T.800 Annex D: the EBCOT tier-1 block coder, as one traversal     *)
(* used in both directions.                                                *)
(*   D.1      stripe-oriented scan                                         *)
(*   D.3.1    significance propagation pass, zero-coding contexts of       *)
(*            Table D.1 by sub-band orientation                            *)
(*   D.3.2    sign coding, Tables D.2 / D.3                                *)
(*   D.3.3    magnitude refinement pass, Table D.4                         *)
(*   D.3.4    cleanup pass with run-length mode, Table D.5                 *)
(*   D.4      context initialisation (Table D.7), termination and codeword *)
(*            segments (Tables D.8, D.9)                                   *)
(*   D.5      segmentation symbol, D.6 selective arithmetic-coding bypass, *)
(*   D.7      vertically causal context formation                          *)
(* The arithmetic coder is module MQ (Annex C).  In direction "enc" the    *)
(* traversal reads the coefficients and emits (decision, context) pairs    *)
(* per coding pass; in direction "dec" it takes the decisions from the MQ  *)
(* (or raw) decoder over the codeword segments.  Written from the standard.*)
(* Code-block style bits: 1 bypass, 2 reset, 4 terminate-all, 8 causal,    *)
(* 16 predictable termination (encoder side only), 32 segmentation symbol. *)
(***************************************************************************)
EXTENDS MQ

Abs(v) == IF v < 0 THEN -v ELSE v
Bit(v, b) == (v \div 2^b) % 2
HasStyle(style, f) == (style \div f) % 2 = 1
Ctxs == 0..18
UNI == 18  RL == 17
CtxInitI == [x \in Ctxs |-> IF x = 0 THEN 4 ELSE IF x = RL THEN 3 ELSE IF x = UNI THEN 46 ELSE 0]      \* Table D.7
CtxInitM == [x \in Ctxs |-> 0]

\* D.1: scan order of a w x h block: stripes of four rows, column by column
Scan(w, h) ==
  LET ns == (h + 3) \div 4
      stripe(s) == LET y0 == 4 * s  n == IF y0 + 4 <= h THEN 4 ELSE h - y0 IN
                   [k \in 1..(w * n) |-> <<(k - 1) \div n, y0 + ((k - 1) % n)>>]
      RECURSIVE cat(_, _)
      cat(s, acc) == IF s = ns THEN acc ELSE cat(s + 1, acc \o stripe(s))
  IN cat(0, <<>>)
Idx(w, x, y) == y * w + x + 1

(***************************************************************************)
(* Neighbourhood.  G = [w, h, orient, style].  With the causal style the   *)
(* row below the last row of a stripe counts as insignificant (D.7).       *)
(***************************************************************************)
SigAt(G, st, x, y, fromY) ==
  IF x < 0 \/ x >= G.w \/ y < 0 \/ y >= G.h THEN 0
  ELSE IF HasStyle(G.style, 8) /\ y = fromY + 1 /\ fromY % 4 = 3 THEN 0
  ELSE st.sig[Idx(G.w, x, y)]
SumH(G, st, x, y) == SigAt(G, st, x - 1, y, y) + SigAt(G, st, x + 1, y, y)
SumV(G, st, x, y) == SigAt(G, st, x, y - 1, y) + SigAt(G, st, x, y + 1, y)
SumD(G, st, x, y) == SigAt(G, st, x - 1, y - 1, y) + SigAt(G, st, x + 1, y - 1, y) + SigAt(G, st, x - 1, y + 1, y) + SigAt(G, st, x + 1, y + 1, y)
\* Table D.1
ZcLL(h, v, d) == IF h = 2 THEN 8
                 ELSE IF h = 1 THEN (IF v >= 1 THEN 7 ELSE IF d >= 1 THEN 6 ELSE 5)
                 ELSE IF v = 2 THEN 4 ELSE IF v = 1 THEN 3 ELSE IF d >= 2 THEN 2 ELSE d
ZcHH(hv, d) == IF d >= 3 THEN 8
               ELSE IF d = 2 THEN (IF hv >= 1 THEN 7 ELSE 6)
               ELSE IF d = 1 THEN (IF hv >= 2 THEN 5 ELSE IF hv = 1 THEN 4 ELSE 3)
               ELSE IF hv >= 2 THEN 2 ELSE hv
ZcCtx(G, st, x, y) ==
  LET h == SumH(G, st, x, y)  v == SumV(G, st, x, y)  d == SumD(G, st, x, y) IN
  CASE G.orient = 1 -> ZcLL(v, h, d)            \* HL: horizontal and vertical exchanged
    [] G.orient = 3 -> ZcHH(h + v, d)
    [] OTHER -> ZcLL(h, v, d)                   \* LL and LH
AnyNbr(G, st, x, y) == SumH(G, st, x, y) + SumV(G, st, x, y) + SumD(G, st, x, y) > 0
\* Tables D.2, D.3: <<context, XOR bit>>
Contrib(G, st, x, y, fromY) == IF SigAt(G, st, x, y, fromY) = 0 THEN 0 ELSE IF st.sgn[Idx(G.w, x, y)] = 1 THEN -1 ELSE 1
Clamp1(v) == IF v > 1 THEN 1 ELSE IF v < -1 THEN -1 ELSE v
ScCtx(G, st, x, y) ==
  LET h == Clamp1(Contrib(G, st, x - 1, y, y) + Contrib(G, st, x + 1, y, y))
      v == Clamp1(Contrib(G, st, x, y - 1, y) + Contrib(G, st, x, y + 1, y))
  IN CASE h = 1 -> (IF v = 1 THEN <<13, 0>> ELSE IF v = 0 THEN <<12, 0>> ELSE <<11, 0>>)
       [] h = 0 -> (IF v = 1 THEN <<10, 0>> ELSE IF v = 0 THEN <<9, 0>> ELSE <<10, 1>>)
       [] OTHER -> (IF v = 1 THEN <<11, 1>> ELSE IF v = 0 THEN <<12, 1>> ELSE <<13, 1>>)
\* Table D.4
MrCtx(G, st, x, y) == IF st.ref[Idx(G.w, x, y)] = 1 THEN 16 ELSE IF AnyNbr(G, st, x, y) THEN 15 ELSE 14

(***************************************************************************)
(* One symbol.  st.dir = "enc": the wanted decision is recorded with its   *)
(* context (-1 = raw bit); "dec": it is taken from the MQ decoder st.mq    *)
(* over the segment bytes st.seg, or from the raw reader st.rw (D.6: the   *)
(* byte after 0xFF carries seven bits).                                    *)
(***************************************************************************)
RawBit(seg, rw) ==
  IF rw.ct = 0
  THEN LET n == IF rw.c = 255 THEN 7 ELSE 8
           c == IF rw.pos <= Len(seg) THEN seg[rw.pos] ELSE 255
       IN <<(c \div 2^(n - 1)) % 2, [pos |-> rw.pos + 1, ct |-> n - 1, c |-> c]>>
  ELSE <<(rw.c \div 2^(rw.ct - 1)) % 2, [rw EXCEPT !.ct = rw.ct - 1]>>
Sym(st, cx, want) ==
  IF st.dir = "enc" THEN <<want, [st EXCEPT !.out = Append(@, <<want, IF st.raw THEN -1 ELSE cx>>)]>>
  ELSE IF st.raw THEN LET r == RawBit(st.seg, st.rw) IN <<r[1], [st EXCEPT !.rw = r[2]]>>
  ELSE LET m == Decode(st.seg, st.mq, cx) IN <<m.d, [st EXCEPT !.mq = m]>>
\* sign of coefficient i: decision = sign XOR xor-bit under the MQ coder, the sign itself in a raw pass
CodeSign(G, st, src, x, y) ==
  LET i == Idx(G.w, x, y)
      sc == ScCtx(G, st, x, y)
      xr == IF st.raw THEN 0 ELSE sc[2]
      want == IF st.dir = "enc" THEN ((IF src[i] < 0 THEN 1 ELSE 0) + xr) % 2 ELSE 0
      r == Sym(st, sc[1], want)
  IN <<(r[1] + xr) % 2, r[2]>>
\* coefficient i becomes significant at bit-plane bp
Signify(G, st, src, x, y, bp) ==
  LET i == Idx(G.w, x, y)
      s == CodeSign(G, st, src, x, y)
  IN [s[2] EXCEPT !.sig[i] = 1, !.sgn[i] = s[1], !.mag[i] = 2^bp]

(***************************************************************************)
(* The three coding passes over the scan positions sc                       *)
(***************************************************************************)
RECURSIVE Spp(_, _, _, _, _, _)
Spp(G, st, src, sc, k, bp) ==
  IF k > Len(sc) THEN st
  ELSE LET x == sc[k][1]  y == sc[k][2]  i == Idx(G.w, x, y) IN
       IF st.sig[i] = 0 /\ AnyNbr(G, st, x, y)
       THEN LET want == IF st.dir = "enc" THEN Bit(Abs(src[i]), bp) ELSE 0
                r == Sym(st, ZcCtx(G, st, x, y), want)
                s1 == [r[2] EXCEPT !.vis[i] = 1]
            IN Spp(G, IF r[1] = 1 THEN Signify(G, s1, src, x, y, bp) ELSE s1, src, sc, k + 1, bp)
       ELSE Spp(G, st, src, sc, k + 1, bp)
RECURSIVE Mrp(_, _, _, _, _, _)
Mrp(G, st, src, sc, k, bp) ==
  IF k > Len(sc) THEN st
  ELSE LET x == sc[k][1]  y == sc[k][2]  i == Idx(G.w, x, y) IN
       IF st.sig[i] = 1 /\ st.vis[i] = 0
       THEN LET want == IF st.dir = "enc" THEN Bit(Abs(src[i]), bp) ELSE 0
                r == Sym(st, MrCtx(G, st, x, y), want)
            IN Mrp(G, [r[2] EXCEPT !.ref[i] = 1, !.mag[i] = @ + r[1] * 2^bp], src, sc, k + 1, bp)
       ELSE Mrp(G, st, src, sc, k + 1, bp)
\* cleanup: sc[k] is coded normally when it is insignificant and was not visited
CupOne(G, st, src, x, y, bp) ==
  LET i == Idx(G.w, x, y) IN
  IF st.sig[i] = 0 /\ st.vis[i] = 0
  THEN LET want == IF st.dir = "enc" THEN Bit(Abs(src[i]), bp) ELSE 0
           r == Sym(st, ZcCtx(G, st, x, y), want)
       IN IF r[1] = 1 THEN Signify(G, r[2], src, x, y, bp) ELSE r[2]
  ELSE st
RECURSIVE Cup(_, _, _, _, _, _)
Cup(G, st, src, sc, k, bp) ==
  IF k > Len(sc) THEN st
  ELSE LET x == sc[k][1]  y == sc[k][2] IN
       IF y % 4 = 0 /\ y + 3 < G.h
          /\ \A j \in 0..3 : st.sig[Idx(G.w, x, y + j)] = 0 /\ st.vis[Idx(G.w, x, y + j)] = 0 /\ ~AnyNbr(G, st, x, y + j)
       THEN \* run-length mode (D.3.4)
            LET first == IF st.dir = "enc" THEN (IF \E j \in 0..3 : Bit(Abs(src[Idx(G.w, x, y + j)]), bp) = 1
                                                 THEN CHOOSE j \in 0..3 : Bit(Abs(src[Idx(G.w, x, y + j)]), bp) = 1 /\
                                                          \A q \in 0..(j - 1) : Bit(Abs(src[Idx(G.w, x, y + q)]), bp) = 0
                                                 ELSE 4)
                         ELSE 0
                r == Sym(st, RL, IF first < 4 THEN 1 ELSE 0)
            IN IF r[1] = 0 THEN Cup(G, r[2], src, sc, k + 4, bp)
               ELSE LET u1 == Sym(r[2], UNI, (first \div 2) % 2)
                        u2 == Sym(u1[2], UNI, first % 2)
                        j == 2 * u1[1] + u2[1]
                        s1 == Signify(G, u2[2], src, x, y + j, bp)
                        RECURSIVE rest(_, _)
                        rest(s, q) == IF q > 3 THEN s ELSE rest(CupOne(G, s, src, x, y + q, bp), q + 1)
                    IN Cup(G, rest(s1, j + 1), src, sc, k + 4, bp)
       ELSE Cup(G, CupOne(G, st, src, x, y, bp), src, sc, k + 1, bp)
\* D.5 segmentation symbol after a cleanup pass: 1010 in the UNIFORM context
SegSym(st) ==
  LET a == Sym(st, UNI, 1)  b == Sym(a[2], UNI, 0)  c == Sym(b[2], UNI, 1)  d == Sym(c[2], UNI, 0)
  IN [d[2] EXCEPT !.ok = @ /\ <<a[1], b[1], c[1], d[1]>> = <<1, 0, 1, 0>>]

(***************************************************************************)
(* Pass structure.  P bit-planes give 3P - 2 passes; pass 0 is the cleanup *)
(* pass of the top plane, then (significance, refinement, cleanup) per     *)
(* plane.  Table D.9: with the bypass style the significance and           *)
(* refinement passes from pass 10 on are raw.                              *)
(***************************************************************************)
PassType(p) == IF p = 0 THEN 2 ELSE (p - 1) % 3                   \* 0 significance, 1 refinement, 2 cleanup
PassPlane(P, p) == IF p = 0 THEN P - 1 ELSE P - 2 - ((p - 1) \div 3)
IsRaw(style, p) == HasStyle(style, 1) /\ p >= 10 /\ PassType(p) # 2
\* does pass p end a codeword segment (Table D.8 / D.9); the last pass always does
EndsSegment(style, p, np) == p = np - 1 \/ HasStyle(style, 4) \/ (HasStyle(style, 1) /\ p >= 9 /\ PassType(p) # 0)
State0(G, dir) == [dir |-> dir, sig |-> [i \in 1..(G.w * G.h) |-> 0], sgn |-> [i \in 1..(G.w * G.h) |-> 0], vis |-> [i \in 1..(G.w * G.h) |-> 0],
                   ref |-> [i \in 1..(G.w * G.h) |-> 0], mag |-> [i \in 1..(G.w * G.h) |-> 0], raw |-> FALSE, ok |-> TRUE,
                   out |-> <<>>, seg |-> <<>>, mq |-> <<>>, rw |-> <<>>]
RunPass(G, st, src, sc, P, p) ==
  LET bp == PassPlane(P, p)
      t == PassType(p)
      s0 == [st EXCEPT !.raw = IsRaw(G.style, p)]
      s1 == CASE t = 0 -> Spp(G, s0, src, sc, 1, bp) [] t = 1 -> Mrp(G, s0, src, sc, 1, bp) [] OTHER -> Cup(G, s0, src, sc, 1, bp)
      s2 == IF t = 2 /\ HasStyle(G.style, 32) THEN SegSym(s1) ELSE s1
  IN IF t = 2 THEN [s2 EXCEPT !.vis = [i \in 1..(G.w * G.h) |-> 0]] ELSE s2

(***************************************************************************)
(* Encoder: decisions per pass, then one MQ (or raw) codeword per segment.  *)
(***************************************************************************)
Value(st, i) == IF st.sgn[i] = 1 THEN -st.mag[i] ELSE st.mag[i]
NumPlanes(src) == LET m == CHOOSE m \in {Abs(src[i]) : i \in 1..Len(src)} : \A i \in 1..Len(src) : Abs(src[i]) <= m IN
                  IF m = 0 THEN 0 ELSE CHOOSE P \in 1..31 : 2^(P - 1) <= m /\ m < 2^P
RECURSIVE EncPasses(_, _, _, _, _, _, _)
EncPasses(G, st, src, sc, P, p, acc) ==       \* acc: sequence of decision lists, one per pass
  IF p = 3 * P - 2 THEN acc
  ELSE LET s == RunPass(G, [st EXCEPT !.out = <<>>], src, sc, P, p) IN EncPasses(G, s, src, sc, P, p + 1, Append(acc, s.out))
\* raw bits -> bytes (D.6): the byte after 0xFF carries seven bits; the last byte is padded with an alternating 0101.. tail
RECURSIVE RawPack(_, _, _)
RawPack(bits, k, acc) ==
  IF k > Len(bits) THEN acc
  ELSE LET n == IF Len(acc) > 0 /\ acc[Len(acc)] = 255 THEN 7 ELSE 8
           v == LET RECURSIVE val(_, _) val(j, a) == IF j = n THEN a ELSE val(j + 1, 2 * a + (IF k + j <= Len(bits) THEN bits[k + j] ELSE (j + k - Len(bits) + 1) % 2)) IN val(0, 0)
       IN RawPack(bits, k + n, Append(acc, v))
\* MQ codeword of the passes ps (decision lists) continuing from context states I, M; with the reset style the contexts
\* restart at every pass while the codeword continues.  Returns <<bytes, I, M>>.
RECURSIVE MqRun(_, _, _)
MqRun(s, ds, k) == IF k > Len(ds) THEN s ELSE MqRun(Encode(s, ds[k][1], ds[k][2]), ds, k + 1)
RECURSIVE MqPasses(_, _, _, _)
MqPasses(s, ps, k, reset) ==
  IF k > Len(ps) THEN s
  ELSE MqPasses(MqRun(IF reset THEN [s EXCEPT !.I = CtxInitI, !.M = CtxInitM] ELSE s, ps[k], 1), ps, k + 1, reset)
MqSegment(ps, I, M, reset) == LET s1 == MqPasses([EncInit(Ctxs) EXCEPT !.I = I, !.M = M], ps, 1, reset) IN <<Flush(s1), s1.I, s1.M>>
RECURSIVE FlatBits(_, _, _)
FlatBits(ps, k, acc) == IF k > Len(ps) THEN acc ELSE FlatBits(ps, k + 1, acc \o [j \in 1..Len(ps[k]) |-> ps[k][j][1]])
\* a raw codeword must not end in 0xFF: that byte is implied (the reader fills with 0xFF beyond the end)
RawSegment(ps) == LET b == RawPack(FlatBits(ps, 1, <<>>), 1, <<>>) IN IF Len(b) > 0 /\ b[Len(b)] = 255 THEN SubSeq(b, 1, Len(b) - 1) ELSE b
\* segments: sequence of [first, last, bytes]
RECURSIVE EncSegments(_, _, _, _, _, _, _, _)
EncSegments(style, dl, p, first, cur, I, M, acc) ==
  LET np == Len(dl) IN
  IF p = np THEN acc
  ELSE LET ps == Append(cur, dl[p + 1]) IN
       IF ~EndsSegment(style, p, np) THEN EncSegments(style, dl, p + 1, first, ps, I, M, acc)
       ELSE IF IsRaw(style, p) THEN EncSegments(style, dl, p + 1, p + 1, <<>>, I, M, Append(acc, [first |-> first, last |-> p, bytes |-> RawSegment(ps)]))
       ELSE LET m == MqSegment(ps, I, M, HasStyle(style, 2)) IN
            EncSegments(style, dl, p + 1, p + 1, <<>>, m[2], m[3], Append(acc, [first |-> first, last |-> p, bytes |-> m[1]]))
EncodeBlock(G, src) ==
  LET P == NumPlanes(src) IN
  IF P = 0 THEN [P |-> 0, segs |-> <<>>]
  ELSE [P |-> P, segs |-> EncSegments(G.style, EncPasses(G, State0(G, "enc"), src, Scan(G.w, G.h), P, 0, <<>>), 0, 0, <<>>, CtxInitI, CtxInitM, <<>>)]

(***************************************************************************)
(* Decoder over segments [first, last, bytes]                               *)
(***************************************************************************)
RECURSIVE DecPasses(_, _, _, _, _, _, _)
DecPasses(G, st, sc, P, segs, k, p) ==
  IF k > Len(segs) THEN st
  ELSE LET sg == segs[k]
           raw == IsRaw(G.style, p)
           rs == HasStyle(G.style, 2) /\ ~raw
           \* a new segment re-initialises the arithmetic decoder; the context states continue unless RESET
           I0 == IF rs \/ st.mq = <<>> THEN CtxInitI ELSE st.mq.I
           M0 == IF rs \/ st.mq = <<>> THEN CtxInitM ELSE st.mq.M
           s0 == IF p = sg.first
                 THEN (IF raw THEN [st EXCEPT !.seg = sg.bytes, !.rw = [pos |-> 1, ct |-> 0, c |-> 0]]
                       ELSE [st EXCEPT !.seg = sg.bytes, !.mq = [DecInit(sg.bytes, Ctxs) EXCEPT !.I = I0, !.M = M0]])
                 ELSE (IF rs THEN [st EXCEPT !.mq.I = CtxInitI, !.mq.M = CtxInitM] ELSE st)
           s1 == RunPass(G, s0, <<>>, sc, P, p)
       IN IF p = sg.last THEN DecPasses(G, s1, sc, P, segs, k + 1, p + 1) ELSE DecPasses(G, s1, sc, P, segs, k, p + 1)
DecodeBlock(G, P, segs) ==
  IF P = 0 THEN [ok |-> TRUE, val |-> [i \in 1..(G.w * G.h) |-> 0]]
  ELSE LET st == DecPasses(G, State0(G, "dec"), Scan(G.w, G.h), P, segs, 1, 0)
       IN [ok |-> st.ok, val |-> [i \in 1..(G.w * G.h) |-> Value(st, i)]]

\* segments of a block coded by someone else: all bytes and the cumulative length at the end of every pass
SegmentsOf(style, bytes, rates) ==
  LET np == Len(rates)
      RECURSIVE go(_, _, _, _)
      go(p, first, from, acc) == IF p = np THEN acc
                                 ELSE IF EndsSegment(style, p, np)
                                      THEN go(p + 1, p + 1, rates[p + 1], Append(acc, [first |-> first, last |-> p, bytes |-> SubSeq(bytes, from + 1, rates[p + 1])]))
                                      ELSE go(p + 1, first, from, acc)
  IN go(0, 0, 0, <<>>)
=============================================================================
