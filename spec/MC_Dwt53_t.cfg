SPECIFICATION Spec
CONSTANTS
  MaxLen = 8
  VMax = 2
  MaxW = 3
  MaxH = 3
  MaxL = 3
  RMax = 6
INVARIANTS Lift1D Lift2D Rct LowCount
CHECK_DEADLOCK FALSE
