SPECIFICATION Spec
CONSTANTS
  MaxDim = 9
INVARIANTS SelfWalk SelfPackets
CHECK_DEADLOCK FALSE
