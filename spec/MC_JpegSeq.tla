------------------------------ MODULE MC_JpegSeq ------------------------------
(***************************************************************************)
(* Bounded model of the baseline sequential entropy coder (JpegSeq):       *)
(* for every frame geometry in Sizes x sampling x restart interval x table *)
(* family x per-component block-pattern phase, the encoder machine is run  *)
(* MCU by MCU and on completion the reference decoder (F.2.2) must give    *)
(* back exactly the coefficient blocks; structural invariants of the       *)
(* machine hold in every state:                                            *)
(*   - DC predictions are zero right after a restart (E.1.4),              *)
(*   - restart markers RSTm cycle modulo 8 and none follows the last MCU,  *)
(*   - entropy-coded bytes contain FF only as FF00 or RSTm (F.1.2.3),      *)
(*   - block traversal visits every block of the padded components once.   *)
(***************************************************************************)
EXTENDS JpegSeq
CONSTANTS Sizes, Samps, Ris, TabKinds

\* block patterns (zig-zag order): DC only; DC + first AC; ZRL run and a last coefficient (no EOB); negative DC with far AC; category 10/11 values
Z == [k \in 1..64 |-> 0]
Patterns == << [Z EXCEPT ![1] = 5],
               [Z EXCEPT ![1] = -3, ![2] = 1],
               [Z EXCEPT ![1] = 60, ![20] = -2, ![64] = 1],
               [Z EXCEPT ![1] = -1023, ![3] = 500, ![40] = -1],
               [Z EXCEPT ![1] = 1023, ![34] = 7, ![63] = -3] >>

SizesQ == {<<1, 1>>, <<8, 9>>, <<17, 8>>, <<17, 17>>}
SizesT == {<<1, 1>>, <<8, 8>>, <<8, 9>>, <<9, 8>>, <<16, 16>>, <<17, 8>>, <<8, 17>>, <<17, 17>>, <<33, 17>>, <<24, 33>>, <<33, 33>>}

VARIABLES phase, f, ph, tabs, es
vars == <<phase, f, ph, tabs, es>>

Coef == [i \in 1..f.nf |-> [by \in 1..BlocksY(f, i) |-> [bx \in 1..BlocksX(f, i) |-> Patterns[((ph[i] + 2 * by + bx) % Len(Patterns)) + 1]]]]
FlatDc == MkTable(<<0, 0, 0, 12, 0, 0, 0, 0, 0, 0, 0, 0, 0, 0, 0, 0>>, [k \in 1..12 |-> k - 1])
RECURSIVE SortedSeq(_, _)
SortedSeq(S, acc) == IF S = {} THEN acc ELSE LET m == CHOOSE m \in S : \A u \in S : m <= u IN SortedSeq(S \ {m}, Append(acc, m))
FlatAc == MkTable(<<0, 0, 0, 0, 0, 0, 0, 162, 0, 0, 0, 0, 0, 0, 0, 0>>, SortedSeq(AcSymbols, <<>>))
Tabs(kind) == IF kind = "std" THEN [dc |-> [t \in 0..1 |-> IF t = 0 THEN StdDcLum ELSE StdDcChr], ac |-> [t \in 0..1 |-> IF t = 0 THEN StdAcLum ELSE StdAcChr]]
              ELSE [dc |-> [t \in 0..1 |-> FlatDc], ac |-> [t \in 0..1 |-> FlatAc]]
FrameOf(wh, nf, samp, ri) ==
  LET hy == IF nf = 1 THEN 1 ELSE IF samp \in {"422", "420"} THEN 2 ELSE 1
      vy == IF nf = 1 THEN 1 ELSE IF samp \in {"420", "440"} THEN 2 ELSE 1
  IN [w |-> wh[1], h |-> wh[2], nf |-> nf, hs |-> [i \in 1..nf |-> IF i = 1 THEN hy ELSE 1], vs |-> [i \in 1..nf |-> IF i = 1 THEN vy ELSE 1],
      tq |-> [i \in 1..nf |-> IF i = 1 THEN 0 ELSE 1], td |-> [i \in 1..nf |-> IF i = 1 THEN 0 ELSE 1], ta |-> [i \in 1..nf |-> IF i = 1 THEN 0 ELSE 1],
      cid |-> [i \in 1..nf |-> i], ri |-> ri]

Init == phase = "geom" /\ f = <<>> /\ ph = <<>> /\ tabs = <<>> /\ es = <<>>
Geometry == /\ phase = "geom"
            /\ \E wh \in Sizes, nf \in {1, 3}, samp \in Samps, ri \in Ris, kind \in TabKinds :
                 /\ (nf = 1 => samp = "444")
                 /\ f' = FrameOf(wh, nf, samp, ri) /\ tabs' = Tabs(kind)
            /\ phase' = "content" /\ UNCHANGED <<ph, es>>
Contents == /\ phase = "content"
            /\ \E p \in [1..f.nf -> 0..(Len(Patterns) - 1)] : ph' = p
            /\ es' = EncInit(f) /\ phase' = "enc" /\ UNCHANGED <<f, tabs>>
Enc == /\ phase = "enc" /\ ~EncDone(f, es) /\ es' = EncMcu(f, tabs, Coef, es) /\ UNCHANGED <<phase, f, ph, tabs>>
Finish == /\ phase = "enc" /\ EncDone(f, es) /\ phase' = "done" /\ UNCHANGED <<f, ph, tabs, es>>
Next == Geometry \/ Contents \/ Enc \/ Finish
Spec == Init /\ [][Next]_vars

RoundTrip == phase = "done" =>
  LET d == DecScan(f, tabs, EntropyCoded(es))  blks == ScanBlocks(f, 0, <<>>) IN
  /\ Len(d) = Len(blks)
  /\ \A k \in 1..Len(d) : <<d[k][1], d[k][2], d[k][3]>> = blks[k] /\ d[k][4] = Coef[d[k][1]][d[k][2]][d[k][3]]
PredReset == phase = "enc" /\ f.ri > 0 /\ es.m > 0 /\ es.m % f.ri = 0 /\ es.m < NMcu(f) => es.bits = <<>> /\ \A i \in 1..f.nf : es.pred[i] = 0
RstCount == phase \in {"enc", "done"} => es.nrst = (IF f.ri = 0 \/ es.m = 0 THEN 0 ELSE (IF es.m = NMcu(f) THEN (es.m - 1) \div f.ri ELSE es.m \div f.ri))
Stuffed == phase = "done" =>
  LET by == EntropyCoded(es) IN
  /\ \A p \in 1..Len(by) : by[p] = 255 => p < Len(by) /\ (by[p + 1] = 0 \/ (by[p + 1] >= 208 /\ by[p + 1] <= 215))
  /\ LET ms == SelectSeq([p \in 1..(Len(by) - 1) |-> IF by[p] = 255 /\ by[p + 1] # 0 THEN by[p + 1] ELSE 0], LAMBDA v : v # 0)
     IN \A j \in 1..Len(ms) : ms[j] = 208 + ((j - 1) % 8)
Traversal == phase = "enc" /\ es.m = 0 =>
  LET blks == ScanBlocks(f, 0, <<>>) IN
  /\ \A i \in 1..f.nf : \A by \in 1..BlocksY(f, i) : \A bx \in 1..BlocksX(f, i) : Cardinality({k \in 1..Len(blks) : blks[k] = <<i, by, bx>>}) = 1
  /\ Len(blks) = NMcu(f) * (IF f.nf = 1 THEN 1 ELSE f.hs[1] * f.vs[1] + 2)
=============================================================================
