---------------------------- MODULE MC_PackBits ----------------------------
(* Model-checking + behaviour-emitting wrapper for PackBits (property C01). *)
EXTENDS PackBits, Json
\* one scenario per complete behaviour of the encoder machine
Emit == (done /\ Len(inp) > 0) => PrintT("@@SCN|" \o ToJson([bytes |-> inp, specout |-> out, maxpkt |-> MaxPkt]))
=============================================================================
