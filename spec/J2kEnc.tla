------------------------------- MODULE J2kEnc -------------------------------
(***************************************************************************)
(* A complete reversible JPEG 2000 ENCODER assembled from the mechanism    *)
(* modules, for tiny images: DC level shift (G.1), reversible component    *)
(* transform (G.2, Dwt53), 5/3 wavelet transform (F, Dwt53), sub-band and  *)
(* code-block partition (B.5-B.7), EBCOT block coding (D, T1 + MQ),        *)
(* packet headers with tag trees (B.10, the writer dual to the reader of   *)
(* PacketHeader), one quality layer, LRCP, one precinct per resolution,    *)
(* and the marker segments SOC SIZ COD QCD SOT SOD EOC (A).  It shares     *)
(* nothing with the library; its codestreams are replayed into the         *)
(* library's DECODER (reverse direction of the JPEG 2000 round trips).     *)
(* Scope: any tile grid anchored at the origin (absolute coordinates, odd    *)
(* tile origins included), 1 or 3 components without sub-sampling,          *)
(* unsigned samples of precision P, NL decomposition levels, code-block    *)
(* style 0.                                                                *)
(***************************************************************************)
EXTENDS Integers, Sequences, FiniteSets, TLC
PH == INSTANCE PacketHeader
T == INSTANCE T1
D == INSTANCE Dwt53

CeilDiv(a, b) == (a + b - 1) \div b
RECURSIVE FloorLog2(_)
FloorLog2(n) == IF n <= 1 THEN 0 ELSE 1 + FloorLog2(n \div 2)
RECURSIVE FlatSeq(_, _, _)
FlatSeq(ss, k, acc) == IF k > Len(ss) THEN acc ELSE FlatSeq(ss, k + 1, acc \o ss[k])

(***************************************************************************)
(* Transforms.  img = [w, h, nc, P, pix] with pix[c][y][x] (1-based).       *)
(***************************************************************************)
Shifted(img) == [c \in 1..img.nc |-> [y \in 1..img.h |-> [x \in 1..img.w |-> img.pix[c][y][x] - 2^(img.P - 1)]]]
Colour(img, mct) ==
  LET s == Shifted(img) IN
  IF img.nc = 3 /\ mct
  THEN [c \in 1..3 |-> [y \in 1..img.h |-> [x \in 1..img.w |-> D!RctFwd(s[1][y][x], s[2][y][x], s[3][y][x])[c]]]]
  ELSE s
Wavelet(plane, w, h, nl) == D!FwdML(plane, w, h, 0, 0, nl)          \* Mallat layout, tile at the origin

\* Mallat geometry of a window [o, o + n) after k levels (F.3.1 with origin parity): <<origin, length>> of the low part
RECURSIVE LowWin(_, _, _)
LowWin(o, n, k) == IF k = 0 THEN <<o, n>> ELSE LowWin(D!CeilHalf(o), D!LowLen(n, o), k - 1)
\* sub-band ob of resolution r of a tile-component window (x0, y0, w, h): position inside the Mallat layout [x0, y0, w, h]
\* and absolute band coordinates ax0, ay0 (B-15)
BandBox(tx0, ty0, w, h, nl, r, ob) ==
  IF r = 0 THEN LET lx == LowWin(tx0, w, nl)  ly == LowWin(ty0, h, nl) IN
                [x0 |-> 0, y0 |-> 0, w |-> lx[2], h |-> ly[2], ax0 |-> lx[1], ay0 |-> ly[1]]
  ELSE LET nb == nl - r + 1
           px == LowWin(tx0, w, nb - 1)  py == LowWin(ty0, h, nb - 1)           \* the window that level nb splits
           lx == LowWin(tx0, w, nb)  ly == LowWin(ty0, h, nb)
       IN [x0 |-> IF ob[1] = 1 THEN lx[2] ELSE 0, y0 |-> IF ob[2] = 1 THEN ly[2] ELSE 0,
           w |-> IF ob[1] = 1 THEN px[2] - lx[2] ELSE lx[2], h |-> IF ob[2] = 1 THEN py[2] - ly[2] ELSE ly[2],
           ax0 |-> IF ob[1] = 1 THEN px[1] \div 2 ELSE lx[1], ay0 |-> IF ob[2] = 1 THEN py[1] \div 2 ELSE ly[1]]
Orient(r, ob) == IF r = 0 THEN 0 ELSE IF ob = <<1, 0>> THEN 1 ELSE IF ob = <<0, 1>> THEN 2 ELSE 3
GainLog(r, ob) == IF r = 0 THEN 0 ELSE ob[1] + ob[2]

(***************************************************************************)
(* Code-blocks of one band (raster order): each [w, h, src, P, bytes].      *)
(***************************************************************************)
Blocks(coef, bx, xcb, ycb, orient) ==
  IF bx.w = 0 \/ bx.h = 0 THEN [ncw |-> 0, nch |-> 0, cbs |-> <<>>]
  ELSE LET gx == bx.ax0 \div 2^xcb  gy == bx.ay0 \div 2^ycb                 \* the code-block grid is anchored at the band origin 0 (B.7)
           ncw == CeilDiv(bx.ax0 + bx.w, 2^xcb) - gx  nch == CeilDiv(bx.ay0 + bx.h, 2^ycb) - gy
           one(j) == LET cx == (j - 1) % ncw  cy == (j - 1) \div ncw
                         a0 == IF (gx + cx) * 2^xcb > bx.ax0 THEN (gx + cx) * 2^xcb ELSE bx.ax0
                         a1 == IF (gx + cx + 1) * 2^xcb < bx.ax0 + bx.w THEN (gx + cx + 1) * 2^xcb ELSE bx.ax0 + bx.w
                         b0 == IF (gy + cy) * 2^ycb > bx.ay0 THEN (gy + cy) * 2^ycb ELSE bx.ay0
                         b1 == IF (gy + cy + 1) * 2^ycb < bx.ay0 + bx.h THEN (gy + cy + 1) * 2^ycb ELSE bx.ay0 + bx.h
                         cw == a1 - a0  ch == b1 - b0
                         src == [i \in 1..(cw * ch) |-> coef[bx.y0 + (b0 - bx.ay0) + ((i - 1) \div cw) + 1][bx.x0 + (a0 - bx.ax0) + ((i - 1) % cw) + 1]]
                         e == T!EncodeBlock([w |-> cw, h |-> ch, orient |-> orient, style |-> 0], src)
                     IN [w |-> cw, h |-> ch, src |-> src, P |-> e.P, bytes |-> IF e.P = 0 THEN <<>> ELSE e.segs[1].bytes]
       IN [ncw |-> ncw, nch |-> nch, cbs |-> [j \in 1..(ncw * nch) |-> one(j)]]

(***************************************************************************)
(* B.10.1 bit writer: the byte after 0xFF carries seven bits; the header   *)
(* is padded to a byte and a final 0xFF is followed by a zero byte.        *)
(***************************************************************************)
RECURSIVE PackHeader(_, _, _)
PackHeader(bits, k, acc) ==
  IF k > Len(bits) THEN (IF Len(acc) > 0 /\ acc[Len(acc)] = 255 THEN Append(acc, 0) ELSE acc)
  ELSE LET n == IF Len(acc) > 0 /\ acc[Len(acc)] = 255 THEN 7 ELSE 8
           RECURSIVE val(_, _)
           val(j, a) == IF j = n THEN a ELSE val(j + 1, 2 * a + (IF k + j <= Len(bits) THEN bits[k + j] ELSE 0))
       IN PackHeader(bits, k + n, Append(acc, val(0, 0)))
BitsOf(v, n) == [i \in 1..n |-> (v \div 2^(n - i)) % 2]

(***************************************************************************)
(* B.10.2 tag-tree ENCODER over a w x h grid with leaf values val[j]        *)
(* (raster, 1-based).  State: low and known per node.                      *)
(***************************************************************************)
NodeVal(w, val, k, nx, ny) ==
  LET S == {val[y * w + x + 1] : x \in {x \in 0..(w - 1) : x \div 2^k = nx}, y \in {y \in 0..((Len(val) \div w) - 1) : y \div 2^k = ny}}
  IN CHOOSE m \in S : \A v \in S : m <= v
TTE0(w, h) == LET t == PH!TTInit(w, h) IN [K |-> t.K, nd |-> [n \in DOMAIN t.nd |-> <<0, FALSE>>]]
RECURSIVE TTELoop(_, _, _, _, _)
TTELoop(low, known, value, t, acc) ==            \* the while-loop of one node: returns <<low, known, bits>>
  IF low >= t THEN <<low, known, acc>>
  ELSE IF low >= value THEN (IF known THEN <<low, known, acc>> ELSE <<low, TRUE, Append(acc, 1)>>)
  ELSE TTELoop(low + 1, known, value, t, Append(acc, 0))
RECURSIVE TTELevel(_, _, _, _, _, _, _, _, _)
TTELevel(tt, w, val, x, y, t, k, low, acc) ==
  LET id == <<k, x \div 2^k, y \div 2^k>>
      n0 == tt.nd[id]
      l0 == IF low > n0[1] THEN low ELSE n0[1]
      r == TTELoop(l0, n0[2], NodeVal(w, val, k, id[2], id[3]), t, acc)
      tt1 == [tt EXCEPT !.nd[id] = <<r[1], r[2]>>]
  IN IF k = 0 THEN <<tt1, r[3]>> ELSE TTELevel(tt1, w, val, x, y, t, k - 1, r[1], r[3])
TTEncode(tt, w, val, x, y, t, acc) == TTELevel(tt, w, val, x, y, t, tt.K, 0, acc)

(***************************************************************************)
(* B.10.3-7: header bits of one packet (single layer: every non-empty       *)
(* code-block is included in layer 0 with all its passes).  Mb = magnitude *)
(* bit-planes of the band (E.1: G + exponent - 1).                          *)
(***************************************************************************)
PassesCode(n) ==
  IF n = 1 THEN <<0>> ELSE IF n = 2 THEN <<1, 0>>
  ELSE IF n <= 5 THEN <<1, 1>> \o BitsOf(n - 3, 2)
  ELSE IF n <= 36 THEN <<1, 1, 1, 1>> \o BitsOf(n - 6, 5)
  ELSE <<1, 1, 1, 1, 1, 1, 1, 1, 1>> \o BitsOf(n - 37, 7)
RECURSIVE BandHeader(_, _, _, _, _, _)
BandHeader(bk, Mb, j, inc, zb, acc) ==
  IF j > Len(bk.cbs) THEN acc
  ELSE LET cb == bk.cbs[j]
           x == (j - 1) % bk.ncw  y == (j - 1) \div bk.ncw
           incVal == [i \in 1..Len(bk.cbs) |-> IF bk.cbs[i].P > 0 THEN 0 ELSE 1]
           zbVal == [i \in 1..Len(bk.cbs) |-> Mb - bk.cbs[i].P]
           a == TTEncode(inc, bk.ncw, incVal, x, y, 1, acc)
       IN IF cb.P = 0 THEN BandHeader(bk, Mb, j + 1, a[1], zb, a[2])
          ELSE LET z == TTEncode(zb, bk.ncw, zbVal, x, y, 1000, a[2])
                   np == 3 * cb.P - 2
                   len == Len(cb.bytes)
                   need == (FloorLog2(len) + 1) - (3 + FloorLog2(np))
                   incr == IF need > 0 THEN need ELSE 0
                   bits == z[2] \o PassesCode(np) \o [i \in 1..incr |-> 1] \o <<0>> \o BitsOf(len, 3 + incr + FloorLog2(np))
               IN BandHeader(bk, Mb, j + 1, a[1], z[1], bits)
RECURSIVE PacketOf(_, _, _, _, _, _)
PacketOf(bands, Mbs, b, hdr, body, any) ==         \* bands: sequence of Blocks(..) records of one resolution
  IF b > Len(bands) THEN PackHeader(IF any THEN <<1>> \o hdr ELSE <<0>>, 1, <<>>) \o body
  ELSE LET bk == bands[b] IN
       IF Len(bk.cbs) = 0 THEN PacketOf(bands, Mbs, b + 1, hdr, body, any)
       ELSE PacketOf(bands, Mbs, b + 1, BandHeader(bk, Mbs[b], 1, TTE0(bk.ncw, bk.nch), TTE0(bk.ncw, bk.nch), hdr),
                     body \o FlatSeq([j \in 1..Len(bk.cbs) |-> bk.cbs[j].bytes], 1, <<>>), TRUE)

(***************************************************************************)
(* Marker segments (A.4-A.6) and the codestream                             *)
(***************************************************************************)
U16b(v) == <<v \div 256, v % 256>>
U32b(v) == <<v \div 16777216, (v \div 65536) % 256, (v \div 256) % 256, v % 256>>
SegJ(m, body) == <<255, m>> \o U16b(Len(body) + 2) \o body
Guard == 2
Siz(img, cd) == SegJ(81, U16b(0) \o U32b(img.w) \o U32b(img.h) \o U32b(0) \o U32b(0) \o U32b(cd.tw) \o U32b(cd.th) \o U32b(0) \o U32b(0)
                     \o U16b(img.nc) \o FlatSeq([c \in 1..img.nc |-> <<img.P - 1, 1, 1>>], 1, <<>>))
Cod(img, cd) == SegJ(82, <<0, 0>> \o U16b(1) \o <<IF img.nc = 3 /\ cd.mct THEN 1 ELSE 0, cd.nl, cd.xcb - 2, cd.ycb - 2, 0, 1>>)
BandsOfRes(r) == IF r = 0 THEN << <<0, 0>> >> ELSE << <<1, 0>>, <<0, 1>>, <<1, 1>> >>
Qcd(img, cd) == SegJ(92, <<Guard * 32>> \o FlatSeq([r \in 1..(cd.nl + 1) |-> [b \in 1..Len(BandsOfRes(r - 1)) |-> (img.P + GainLog(r - 1, BandsOfRes(r - 1)[b])) * 8]], 1, <<>>))
\* packets of one tile [x0, y0, x1, y1] (LRCP, one layer): resolution, then component
TileData(planes, img, cd, t) ==
  LET w == t.x1 - t.x0  h == t.y1 - t.y0
      win(c) == [y \in 1..h |-> [x \in 1..w |-> planes[c][t.y0 + y][t.x0 + x]]]
      coef == [c \in 1..img.nc |-> D!FwdML(win(c), w, h, t.x0, t.y0, cd.nl)]
      pkt(r, c) == LET obs == BandsOfRes(r)
                       bands == [b \in 1..Len(obs) |-> Blocks(coef[c], BandBox(t.x0, t.y0, w, h, cd.nl, r, obs[b]), cd.xcb, cd.ycb, Orient(r, obs[b]))]
                       Mbs == [b \in 1..Len(obs) |-> Guard + img.P + GainLog(r, obs[b]) - 1]
                   IN PacketOf(bands, Mbs, 1, <<>>, <<>>, FALSE)
      \* a resolution of zero extent has no precinct and no packet (B.6)
      exists(r) == LowWin(t.x0, w, cd.nl - r)[2] > 0 /\ LowWin(t.y0, h, cd.nl - r)[2] > 0
  IN FlatSeq([k \in 1..((cd.nl + 1) * img.nc) |-> LET r == (k - 1) \div img.nc  c == ((k - 1) % img.nc) + 1 IN IF exists(r) THEN pkt(r, c) ELSE <<>>], 1, <<>>)
Tiles(img, cd) ==
  LET ntx == CeilDiv(img.w, cd.tw)  nty == CeilDiv(img.h, cd.th) IN
  [k \in 1..(ntx * nty) |-> LET p == (k - 1) % ntx  q == (k - 1) \div ntx IN
     [x0 |-> p * cd.tw, y0 |-> q * cd.th, x1 |-> IF (p + 1) * cd.tw < img.w THEN (p + 1) * cd.tw ELSE img.w, y1 |-> IF (q + 1) * cd.th < img.h THEN (q + 1) * cd.th ELSE img.h]]
Encode(img, cd) ==
  LET planes == Colour(img, cd.mct)
      ts == Tiles(img, cd)
      part(k) == LET data == TileData(planes, img, cd, ts[k]) IN
                 <<255, 144>> \o U16b(10) \o U16b(k - 1) \o U32b(14 + Len(data)) \o <<0, 1>> \o <<255, 147>> \o data
      head == <<255, 79>> \o Siz(img, cd) \o Cod(img, cd) \o Qcd(img, cd)
  IN head \o FlatSeq([k \in 1..Len(ts) |-> part(k)], 1, <<>>) \o <<255, 217>>
=============================================================================
