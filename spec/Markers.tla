------------------------------ MODULE Markers ------------------------------
(***************************************************************************)
(* Strict marker-segment walkers for every codestream syntax the library   *)
(* emits (property C16; also used by C08/C09/C11/C12/C17 for the declared  *)
(* geometry):                                                              *)
(*   - ITU-T T.81 Annex B   (SOF0 baseline, SOF1 extended, SOF3 lossless)  *)
(*   - ITU-T T.87 Annex C   (SOF55 JPEG-LS)                                *)
(*   - ITU-T T.800 Annex A  (JPEG 2000 codestream, incl. CAP / TLM)        *)
(* A walker accepts exactly the grammar: start marker first, every segment *)
(* length consistent and landing on a marker, entropy-coded data free of   *)
(* marker codes, tile-part lengths adding up, end marker last.  Written    *)
(* from the standards; shares nothing with jpeg/standard or codestream/.   *)
(***************************************************************************)
EXTENDS Integers, Sequences, FiniteSets, TLC

U16(s, i) == s[i] * 256 + s[i + 1]
U32(s, i) == ((s[i] * 256 + s[i + 1]) * 256 + s[i + 2]) * 256 + s[i + 3]
Bad(why) == [ok |-> FALSE, why |-> why]

(***************************************************************************)
(* Generic: list of marker segments <<marker, body start, body end>> from  *)
(* position i up to and including the first marker in Stop.                *)
(***************************************************************************)
RECURSIVE Segments(_, _, _, _, _)
Segments(s, i, Stop, NoLen, acc) ==
  IF i + 1 > Len(s) THEN [ok |-> FALSE, why |-> "ran off the end looking for a marker", segs |-> acc, next |-> i]
  ELSE IF s[i] # 255 THEN [ok |-> FALSE, why |-> "segment does not land on a marker", segs |-> acc, next |-> i]
  ELSE LET m == s[i + 1] IN
    IF m \in NoLen THEN Segments(s, i + 2, Stop, NoLen, Append(acc, <<m, i + 2, i + 1>>))
    ELSE IF i + 3 > Len(s) THEN [ok |-> FALSE, why |-> "truncated length field", segs |-> acc, next |-> i]
    ELSE LET L == U16(s, i + 2) IN
      IF L < 2 \/ i + 1 + L > Len(s) THEN [ok |-> FALSE, why |-> "segment length out of range", segs |-> acc, next |-> i]
      ELSE IF m \in Stop THEN [ok |-> TRUE, why |-> "", segs |-> Append(acc, <<m, i + 4, i + 1 + L>>), next |-> i + 2 + L]
      ELSE Segments(s, i + 2 + L, Stop, NoLen, Append(acc, <<m, i + 4, i + 1 + L>>))

SegsOf(segs, m) == {k \in 1..Len(segs) : segs[k][1] = m}

(***************************************************************************)
(* T.81 / T.87: SOI ... SOFn ... SOS ECS EOI   (single frame, single scan)  *)
(***************************************************************************)
SOI == 216  EOI == 217  SOS == 218  DQT == 219  DHT == 196  DRI == 221  COMM == 254  LSE == 248
SOFs == {192, 193, 195, 247}
IsRST(b) == b >= 208 /\ b <= 215
KnownJpeg(m) == m \in SOFs \/ m \in {SOS, DQT, DHT, DRI, COMM, LSE} \/ (m >= 224 /\ m <= 239)

\* B.2.4.1 DQT body [a..b]: one or more tables Pq|Tq + 64 entries of 1 or 2 bytes
RECURSIVE DqtOK(_, _, _, _)
DqtOK(s, a, b, maxPq) ==
  IF a > b THEN TRUE
  ELSE LET pq == s[a] \div 16  tq == s[a] % 16  n == 65 + 64 * pq IN
       pq <= maxPq /\ tq <= 3 /\ a + n - 1 <= b /\ DqtOK(s, a + n, b, maxPq)
RECURSIVE DqtIds(_, _, _, _)
DqtIds(s, a, b, acc) == IF a > b THEN acc ELSE DqtIds(s, a + 65 + 64 * (s[a] \div 16), b, acc \cup {s[a] % 16})

\* B.2.4.2 DHT body: Tc|Th, 16 counts, values
RECURSIVE SumTo(_, _, _, _)
SumTo(s, a, n, acc) == IF n = 0 THEN acc ELSE SumTo(s, a + 1, n - 1, acc + s[a])
RECURSIVE DhtOK(_, _, _, _, _)
DhtOK(s, a, b, maxTc, maxTh) ==
  IF a > b THEN TRUE
  ELSE a + 16 <= b /\ s[a] \div 16 <= maxTc /\ s[a] % 16 <= maxTh
       /\ LET n == SumTo(s, a + 1, 16, 0) IN n >= 1 /\ n <= 256 /\ a + 16 + n <= b /\ DhtOK(s, a + 17 + n, b, maxTc, maxTh)
RECURSIVE DhtIds(_, _, _, _)
DhtIds(s, a, b, acc) == IF a > b THEN acc ELSE DhtIds(s, a + 17 + SumTo(s, a + 1, 16, 0), b, acc \cup {s[a]})

\* the entropy-coded segment s[a..b] contains no marker code: every FF is followed by a byte in Allowed
NoMarkerIn(s, a, b, Allowed(_)) == \A i \in a..b : s[i] = 255 => (i < b /\ Allowed(s[i + 1]))

WalkJpeg(s) ==
  IF Len(s) < 4 \/ s[1] # 255 \/ s[2] # SOI THEN Bad("does not start with SOI")
  ELSE IF s[Len(s) - 1] # 255 \/ s[Len(s)] # EOI THEN Bad("does not end with EOI")
  ELSE LET w == Segments(s, 3, {SOS}, {}, <<>>) IN
    IF ~w.ok THEN Bad(w.why)
    ELSE LET segs == w.segs
             sofs == {k \in 1..Len(segs) : segs[k][1] \in SOFs}
             nsos == Len(segs)
      IN IF (\E k \in 1..Len(segs) : ~KnownJpeg(segs[k][1])) THEN Bad("unknown or reserved marker in the header")
         ELSE IF Cardinality(sofs) # 1 THEN Bad("not exactly one frame header")
         ELSE LET kf == CHOOSE k \in sofs : TRUE
                  sof == segs[kf][1]
                  fa == segs[kf][2]  fb == segs[kf][3]
                  nf == s[fa + 5]
                  sa == segs[nsos][2]  sb == segs[nsos][3]
                  ns == s[sa]
                  ecsA == w.next  ecsB == Len(s) - 2
                  jls == sof = 247
                  lossless == sof = 195
                  dqtIds == UNION {DqtIds(s, segs[k][2], segs[k][3], {}) : k \in SegsOf(segs, DQT)}
                  dhtIds == UNION {DhtIds(s, segs[k][2], segs[k][3], {}) : k \in SegsOf(segs, DHT)}
                  ri == IF SegsOf(segs, DRI) = {} THEN 0 ELSE LET k == CHOOSE k \in SegsOf(segs, DRI) : TRUE IN U16(s, segs[k][2])
           IN IF fb - fa + 1 # 6 + 3 * nf \/ nf < 1 THEN Bad("SOF length does not match Nf")
              ELSE IF kf > nsos THEN Bad("SOF after SOS")
              ELSE IF sb - sa + 1 # 4 + 2 * ns \/ ns < 1 \/ ns > nf THEN Bad("SOS length does not match Ns")
              ELSE IF (\E k \in SegsOf(segs, DQT) : ~DqtOK(s, segs[k][2], segs[k][3], IF sof = 192 THEN 0 ELSE 1)) THEN Bad("malformed DQT")
              ELSE IF (\E k \in SegsOf(segs, DHT) : ~DhtOK(s, segs[k][2], segs[k][3], IF lossless THEN 0 ELSE 1, IF sof = 192 THEN 1 ELSE 3))
                   THEN Bad("malformed DHT")
              ELSE IF (\E k \in SegsOf(segs, DRI) : segs[k][3] - segs[k][2] + 1 # 2) THEN Bad("malformed DRI")
              ELSE IF ~jls /\ ~lossless /\ (\E c \in 0..(nf - 1) : s[fa + 8 + 3 * c] \notin dqtIds) THEN Bad("component refers to an undefined quantisation table")
              ELSE IF (\E j \in 0..(ns - 1) : ~(\E c \in 0..(nf - 1) : s[fa + 6 + 3 * c] = s[sa + 1 + 2 * j])) THEN Bad("scan component not in frame")
              ELSE IF ~jls /\ (\E j \in 0..(ns - 1) : LET tdta == s[sa + 2 + 2 * j] IN
                        ((tdta \div 16) \notin dhtIds \/ (~lossless /\ (16 + (tdta % 16)) \notin dhtIds))) THEN Bad("scan refers to an undefined Huffman table")
              ELSE IF ecsA > ecsB + 1 THEN Bad("no room for the scan")
              ELSE IF jls /\ ~NoMarkerIn(s, ecsA, ecsB, LAMBDA b : b < 128) THEN Bad("marker code inside JPEG-LS scan data")
              ELSE IF ~jls /\ ri = 0 /\ ~NoMarkerIn(s, ecsA, ecsB, LAMBDA b : b = 0) THEN Bad("unescaped marker code inside the entropy-coded segment")
              ELSE IF ~jls /\ ri > 0 /\ ~NoMarkerIn(s, ecsA, ecsB, LAMBDA b : b = 0 \/ IsRST(b)) THEN Bad("unescaped marker code inside the entropy-coded segment")
              ELSE [ok |-> TRUE, why |-> "", kind |-> sof, p |-> s[fa], h |-> U16(s, fa + 1), w |-> U16(s, fa + 3), c |-> nf,
                    ns |-> ns, ss |-> s[sa + 1 + 2 * ns], se |-> s[sa + 2 + 2 * ns], ahal |-> s[sa + 3 + 2 * ns], ri |-> ri,
                    hv |-> [c \in 1..nf |-> s[fa + 7 + 3 * (c - 1)]], cid |-> [c \in 1..nf |-> s[fa + 6 + 3 * (c - 1)]],
                    jfif |-> \E k \in SegsOf(segs, 224) : TRUE]

(***************************************************************************)
(* T.800 Annex A                                                            *)
(***************************************************************************)
SOC == 79  CAP == 80  SIZ == 81  COD == 82  COC == 83  TLM == 85  PLM == 87  PLT == 88  QCD == 92  QCC == 93  RGN == 94
POC == 95  PPM == 96  PPT == 97  CRG == 99  COM == 100  SOT == 144  SOP == 145  EPH == 146  SOD == 147  EOC == 217
MCT == 116  MCC == 117  MCO == 119  CBD == 120
MainHdr == {CAP, SIZ, COD, COC, TLM, PLM, QCD, QCC, RGN, POC, PPM, CRG, COM, MCT, MCC, MCO, CBD}
TileHdr == {COD, COC, QCD, QCC, RGN, POC, PPT, PLT, COM}

\* tile-part header: marker segments until SOD; returns the first data position
RECURSIVE TileHeader(_, _, _)
TileHeader(s, i, endp) ==
  IF i + 1 >= endp + 1 THEN [ok |-> FALSE, why |-> "tile-part without SOD", data |-> i]
  ELSE IF s[i] # 255 THEN [ok |-> FALSE, why |-> "tile-part header does not land on a marker", data |-> i]
  ELSE IF s[i + 1] = SOD THEN [ok |-> TRUE, why |-> "", data |-> i + 2]
  ELSE IF s[i + 1] \notin TileHdr THEN [ok |-> FALSE, why |-> "marker not allowed in a tile-part header", data |-> i]
  ELSE IF i + 3 > Len(s) THEN [ok |-> FALSE, why |-> "truncated tile-part header", data |-> i]
  ELSE LET L == U16(s, i + 2) IN
       IF L < 2 \/ i + 2 + L > endp THEN [ok |-> FALSE, why |-> "tile-part header segment length", data |-> i]
       ELSE TileHeader(s, i + 2 + L, endp)

\* tile-parts from position i: list of [isot, psot, tp, tn, dataA, dataB]
RECURSIVE TileParts(_, _, _)
TileParts(s, i, acc) ==
  IF i + 1 <= Len(s) /\ s[i] = 255 /\ s[i + 1] = EOC
  THEN (IF i + 1 = Len(s) THEN [ok |-> TRUE, why |-> "", parts |-> acc] ELSE [ok |-> FALSE, why |-> "data after EOC", parts |-> acc])
  ELSE IF i + 11 > Len(s) \/ s[i] # 255 \/ s[i + 1] # SOT THEN [ok |-> FALSE, why |-> "expected SOT or EOC at a tile-part boundary", parts |-> acc]
  ELSE IF U16(s, i + 2) # 10 THEN [ok |-> FALSE, why |-> "Lsot is not 10", parts |-> acc]
  ELSE LET isot == U16(s, i + 4)  psot == U32(s, i + 6)  tp == s[i + 10]  tn == s[i + 11]
           endp == IF psot = 0 THEN Len(s) - 1 ELSE i + psot          \* first byte after the tile-part
       IN IF psot # 0 /\ (psot < 14 \/ endp > Len(s) - 1) THEN [ok |-> FALSE, why |-> "Psot out of range", parts |-> acc]
          ELSE LET w == TileHeader(s, i + 12, endp) IN
               IF ~w.ok THEN [ok |-> FALSE, why |-> w.why, parts |-> acc]
               ELSE TileParts(s, endp, Append(acc, [isot |-> isot, psot |-> endp - i, tp |-> tp, tn |-> tn, dataA |-> w.data, dataB |-> endp - 1]))

\* TLM entries (A.7.1): list of <<Ttlm or -1, Ptlm>>
RECURSIVE TlmEntries(_, _, _, _, _, _)
TlmEntries(s, a, b, st, sp, acc) ==
  IF a > b THEN acc
  ELSE LET t == IF st = 0 THEN -1 ELSE IF st = 1 THEN s[a] ELSE U16(s, a)
           pa == a + st
           pl == IF sp = 0 THEN U16(s, pa) ELSE U32(s, pa)
       IN TlmEntries(s, pa + (IF sp = 0 THEN 2 ELSE 4), b, st, sp, Append(acc, <<t, pl>>))

\* main header: segments from SIZ until the first SOT
RECURSIVE MainHeader(_, _, _)
MainHeader(s, i, acc) ==
  IF i + 1 > Len(s) THEN [ok |-> FALSE, why |-> "main header runs off the end", segs |-> acc, next |-> i]
  ELSE IF s[i] # 255 THEN [ok |-> FALSE, why |-> "main header segment does not land on a marker", segs |-> acc, next |-> i]
  ELSE IF s[i + 1] = SOT THEN [ok |-> TRUE, why |-> "", segs |-> acc, next |-> i]
  ELSE IF s[i + 1] \notin MainHdr THEN [ok |-> FALSE, why |-> "marker not allowed in the main header", segs |-> acc, next |-> i]
  ELSE IF i + 3 > Len(s) THEN [ok |-> FALSE, why |-> "truncated main header", segs |-> acc, next |-> i]
  ELSE LET L == U16(s, i + 2) IN
       IF L < 2 \/ i + 1 + L > Len(s) THEN [ok |-> FALSE, why |-> "main header segment length", segs |-> acc, next |-> i]
       ELSE MainHeader(s, i + 2 + L, Append(acc, <<s[i + 1], i + 4, i + 1 + L>>))
WalkJ2k(s) ==
  IF Len(s) < 6 \/ s[1] # 255 \/ s[2] # SOC THEN Bad("does not start with SOC")
  ELSE IF s[3] # 255 \/ s[4] # SIZ THEN Bad("SIZ is not the first segment")
  ELSE IF s[Len(s) - 1] # 255 \/ s[Len(s)] # EOC THEN Bad("does not end with EOC")
  ELSE LET w == MainHeader(s, 3, <<>>) IN
    IF ~w.ok THEN Bad(w.why)
    ELSE LET segs == w.segs
             kz == CHOOSE k \in SegsOf(segs, SIZ) : TRUE
             za == segs[kz][2]  zb == segs[kz][3]
             csiz == U16(s, za + 34)
             cods == SegsOf(segs, COD)  qcds == SegsOf(segs, QCD)
      IN IF Cardinality(SegsOf(segs, SIZ)) # 1 \/ Cardinality(cods) # 1 \/ Cardinality(qcds) # 1 THEN Bad("SIZ/COD/QCD not exactly once in the main header")
         ELSE IF zb - za + 1 # 36 + 3 * csiz \/ csiz < 1 THEN Bad("Lsiz does not match Csiz")
         ELSE LET kc == CHOOSE k \in cods : TRUE
                  ca == segs[kc][2]  cb == segs[kc][3]
                  scod == s[ca]
                  nl == s[ca + 5]
                  kq == CHOOSE k \in qcds : TRUE
                  qa == segs[kq][2]  qb == segs[kq][3]
                  sqcd == s[qa]
                  xsiz == U32(s, za + 2)  ysiz == U32(s, za + 6)  xo == U32(s, za + 10)  yo == U32(s, za + 14)
                  xt == U32(s, za + 18)  yt == U32(s, za + 22)  xto == U32(s, za + 26)  yto == U32(s, za + 30)
                  tp == TileParts(s, w.next, <<>>)
           IN IF cb - ca + 1 # 10 + (IF scod % 2 = 1 THEN nl + 1 ELSE 0) THEN Bad("Lcod does not match the precinct flag")
              ELSE IF xt = 0 \/ yt = 0 \/ xsiz <= xo \/ ysiz <= yo \/ xto > xo \/ yto > yo THEN Bad("SIZ extents inconsistent")
              ELSE IF (sqcd % 32 = 0 /\ qb - qa + 1 # 1 + (3 * nl + 1)) \/ (sqcd % 32 = 2 /\ qb - qa + 1 # 1 + 2 * (3 * nl + 1))
                      \/ (sqcd % 32 = 1 /\ qb - qa + 1 # 3) \/ sqcd % 32 > 2 THEN Bad("Lqcd does not match the number of sub-bands")
              ELSE IF ~tp.ok THEN Bad(tp.why)
              ELSE LET parts == tp.parts
                       ntx == -((-(xsiz - xto)) \div xt)  nty == -((-(ysiz - yto)) \div yt)
                       sopOK == scod \div 2 % 2 = 1    \* SOP markers may be used
                       ephOK == scod \div 4 % 2 = 1
                       tlms == SegsOf(segs, TLM)
                       RECURSIVE AllTlm(_, _)
                       AllTlm(S, acc) == IF S = {} THEN acc ELSE
                            LET k == CHOOSE k \in S : \A j \in S : s[segs[k][2]] <= s[segs[j][2]]       \* by Ztlm
                                a == segs[k][2]  st == (s[a + 1] \div 16) % 4  sp == (s[a + 1] \div 64) % 2
                            IN AllTlm(S \ {k}, acc \o TlmEntries(s, a + 2, segs[k][3], st, sp, <<>>))
                       tlm == AllTlm(tlms, <<>>)
                IN IF Len(parts) = 0 THEN Bad("no tile-part")
                   ELSE IF (\E k \in 1..Len(parts) : parts[k].isot >= ntx * nty) THEN Bad("Isot outside the tile grid")
                   ELSE IF {parts[k].isot : k \in 1..Len(parts)} # 0..(ntx * nty - 1) THEN Bad("some tile has no tile-part")
                   ELSE IF (\E k \in 1..Len(parts) : \E i \in parts[k].dataA..parts[k].dataB :
                              s[i] = 255 /\ (i = parts[k].dataB \/ (s[i + 1] > 143 /\ ~(sopOK /\ s[i + 1] = SOP) /\ ~(ephOK /\ s[i + 1] = EPH))))
                        THEN Bad("marker code inside tile-part data")
                   ELSE IF tlms # {} /\ (Len(tlm) # Len(parts) \/ (\E k \in 1..Len(parts) : tlm[k][2] # parts[k].psot \/ (tlm[k][1] >= 0 /\ tlm[k][1] # parts[k].isot)))
                        THEN Bad("TLM does not match the tile-parts present")
                   ELSE [ok |-> TRUE, why |-> "", w |-> xsiz - xo, h |-> ysiz - yo, c |-> csiz,
                         p |-> (s[za + 36] % 128) + 1, signed |-> s[za + 36] >= 128,
                         samedepth |-> \A c \in 0..(csiz - 1) : s[za + 36 + 3 * c] = s[za + 36] /\ s[za + 37 + 3 * c] = 1 /\ s[za + 38 + 3 * c] = 1,
                         tw |-> xt, th |-> yt, ntiles |-> ntx * nty, nparts |-> Len(parts),
                         prog |-> s[ca + 1], layers |-> U16(s, ca + 2), mct |-> s[ca + 4], levels |-> nl,
                         cbw |-> 2^(s[ca + 6] + 2), cbh |-> 2^(s[ca + 7] + 2), cbstyle |-> s[ca + 8], reversible |-> s[ca + 9] = 1,
                         cap |-> SegsOf(segs, CAP) # {}, tlm |-> tlms # {}, guard |-> sqcd \div 32, qstyle |-> sqcd % 32]

=============================================================================
