SPECIFICATION Spec
CONSTANTS
  RunLens = {0, 1, 2, 3, 4, 5, 8, 9, 16, 17, 32, 33, 40}
  MaxRuns = 6
INVARIANTS RoundTrip StateRange NoMarker
CHECK_DEADLOCK FALSE
