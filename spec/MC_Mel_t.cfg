SPECIFICATION Spec
CONSTANTS
  RunLens = {0, 1, 2, 3, 5, 9, 17, 33, 40}
  MaxRuns = 5
INVARIANTS RoundTrip StateRange NoMarker
CHECK_DEADLOCK FALSE
