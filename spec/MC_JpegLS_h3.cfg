SPECIFICATION Spec
INVARIANTS HeaderOK H3 LockStep
CHECK_DEADLOCK FALSE
