SPECIFICATION Spec
CONSTANTS
  MaxDim = 6
INVARIANTS SelfDecode
CHECK_DEADLOCK FALSE
