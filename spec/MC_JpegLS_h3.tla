---------------------------- MODULE MC_JpegLS_h3 ----------------------------
(* T.87 Annex H.3: the specification's encoder reproduces the published stream, and the
   specification's decoder decodes the published stream to the example image. *)
EXTENDS JpegLS
VARIABLES es, ds, phase
vars == <<es, ds, phase>>
pr == DefaultParams(4, 4, 1, 8, 0)
hd == Header(H3Stream)
bs == Unpack(SubSeq(H3Stream, hd.scan, Len(H3Stream)), 1, FALSE, <<>>)
Init == es = InitState(pr) /\ ds = InitState(pr) /\ phase = "run"
Next == \/ /\ phase = "run" /\ ~Done(pr, es) /\ es' = EncStep(pr, es, H3Image) /\ ds' = DecStep(pr, bs, ds) /\ UNCHANGED phase
        \/ /\ phase = "run" /\ Done(pr, es) /\ phase' = "done" /\ UNCHANGED <<es, ds>>
Spec == Init /\ [][Next]_vars
HeaderOK == hd.ok /\ hd.w = 4 /\ hd.h = 4 /\ hd.p = 8 /\ hd.c = 1 /\ hd.near = 0 /\ hd.ilv = 0 /\ hd.sofok /\ hd.sosok
H3 == phase = "done" =>
   /\ SubSeq(H3Stream, 1, hd.scan - 1) \o Pack(es.bits, 1, FALSE, <<>>) \o <<255, 217>> = H3Stream
   /\ ds.out = H3Image /\ Done(pr, ds)
LockStep == es.x = ds.x /\ es.y = ds.y /\ es.ctx = ds.ctx
=============================================================================
