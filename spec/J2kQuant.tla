------------------------------ MODULE J2kQuant ------------------------------
(***************************************************************************)
(* ITU-T T.800 Annex E (quantisation) and the worst-case propagation of the *)
(* DECLARED step sizes through the inverse 9-7 wavelet transform and the    *)
(* inverse irreversible colour transform (property C12).                    *)
(*                                                                          *)
(* Step size of sub-band b (E.1.1):  D_b = 2^(R_b - e_b) * (1 + m_b / 2^11) *)
(* with R_b = P + log2 gain_b (gain 1, 2, 2, 4 for LL, HL, LH, HH) and      *)
(* (e_b, m_b) read from the QCD marker (A.6.4).  A dead-zone quantiser      *)
(* leaves a coefficient error of at most D_b.  One synthesis level maps     *)
(* coefficient errors to sample errors with infinity-norm gains             *)
(*    A0 = max row sum of |g0| = 1.365088 (low-pass), A1 = 0.812893 (high)  *)
(* (9-7 synthesis filters in the (1,2) normalisation of Annex F), so a band *)
(* of decomposition level l contributes at most                             *)
(*    D_b * t_b * (A0^2)^(l-1),  t = A0*A1 (HL, LH), A1^2 (HH); LL: (A0^2)^L *)
(* All arithmetic is integer, saturating, rounded UP; units of 1/256 grey.  *)
(***************************************************************************)
EXTENDS Markers

Cap == 1073741824
SatMul(a, b) == IF a = 0 \/ b = 0 THEN 0 ELSE IF a > Cap \div b THEN Cap ELSE a * b
SatAdd(a, b) == IF a + b > Cap \/ a + b < 0 THEN Cap ELSE a + b
CeilDiv(a, b) == (a + b - 1) \div b

\* (A0^2)^n * 10, rounded up: 1.863465^n
LLGain10 == <<10, 19, 35, 65, 121, 225, 419, 781>>          \* n = 0..7
HLGain10 == 12                                             \* A0*A1 = 1.10967
HHGain10 == 7                                              \* A1^2 = 0.66080

\* D_b in units of 1/256, rounded up, saturating: 2^(8 + R - e) * (2048 + m) / 2048
Step256(R, e, m) ==
  LET sh == 8 + R - e IN
  IF sh >= 30 THEN Cap
  ELSE IF sh >= 0 THEN CeilDiv(SatMul(2^sh, 2048 + m), 2048)
  ELSE CeilDiv(2048 + m, 2048 * 2^(-sh))

\* QCD of a codestream: [style, guard, e, m] (sequences over the 3*NL+1 sub-bands in codestream order)
Qcd(s) ==
  LET w == MainHeader(s, 3, <<>>)
      kq == CHOOSE k \in SegsOf(w.segs, QCD) : TRUE
      a == w.segs[kq][2]  b == w.segs[kq][3]
      sq == s[a]
      style == sq % 32
      n == IF style = 0 THEN b - a ELSE (b - a) \div 2
  IN [style |-> style, guard |-> sq \div 32,
      e |-> [i \in 1..n |-> IF style = 0 THEN s[a + i] \div 8 ELSE s[a + 2 * i - 1] \div 8],
      m |-> [i \in 1..n |-> IF style = 0 THEN 0 ELSE (s[a + 2 * i - 1] % 8) * 256 + s[a + 2 * i]]]

\* sub-band i (1-based, codestream order) of an NL-level decomposition: <<kind, level>>; kind 0 LL, 1 HL/LH, 2 HH
Band(i, NL) == IF i = 1 THEN <<0, NL>> ELSE LET j == i - 2 IN <<IF j % 3 = 2 THEN 2 ELSE 1, NL - (j \div 3)>>

\* magnitude bit-planes M_b = G + e_b - 1 of sub-band i (E.1): the largest over the sub-bands
BandExp(q, NL, i) == IF q.style = 1 /\ i > 1 THEN q.e[1] - (NL - Band(i, NL)[2]) ELSE q.e[i]
MaxPlanes(q, NL) == LET S == {q.guard + BandExp(q, NL, i) - 1 : i \in 1..(3 * NL + 1)} IN CHOOSE m \in S : \A x \in S : x <= m

\* worst-case sample error (1/256 units) of one component coded with NL levels at precision P
RECURSIVE CompBound(_, _, _, _, _)
CompBound(q, NL, P, i, acc) ==
  IF i > 3 * NL + 1 THEN acc
  ELSE LET bd == Band(i, NL)
           gainlog == bd[1]                                            \* log2 of the nominal sub-band gain: 0, 1, 2
           ei == IF q.style = 1 /\ i > 1 THEN q.e[1] - (NL - bd[2]) ELSE q.e[i]          \* derived quantisation (E.1.1.1)
           mi == IF q.style = 1 THEN q.m[1] ELSE q.m[i]
           d == Step256(P + gainlog, ei, mi)
           g10 == IF bd[1] = 0 THEN LLGain10[NL + 1]
                  ELSE SatMul(IF bd[1] = 1 THEN HLGain10 ELSE HHGain10, LLGain10[bd[2]]) \div 10 + 1
       IN CompBound(q, NL, P, i + 1, SatAdd(acc, CeilDiv(SatMul(d, g10), 10)))

\* per-channel bounds of a decoded frame (1/256 units): one component, or three through the absolute inverse ICT (G.3)
Bounds256(q, NL, P, comps, mct, allow256) ==
  LET y == CompBound(q, NL, P, 1, 0) IN
  IF comps = 3 /\ mct
  THEN << SatAdd(SatAdd(y, CeilDiv(SatMul(y, 1403), 1000)), allow256),
          SatAdd(SatAdd(y, CeilDiv(SatMul(y, 1059), 1000)), allow256),
          SatAdd(SatAdd(y, CeilDiv(SatMul(y, 1773), 1000)), allow256) >>
  ELSE [c \in 1..comps |-> SatAdd(y, allow256)]
=============================================================================
