SPECIFICATION SimSpec
CONSTANTS
  Frames = {"A", "B", "C"}
  ParamIds = {"nil", "def", "alt"}
  MaxOps = 4
  MaxSeq = 8
INVARIANTS OneToOneInOrder HistoryFree
CHECK_DEADLOCK FALSE
