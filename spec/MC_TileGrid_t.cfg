SPECIFICATION Spec
CONSTANTS
  MaxW = 12
  MaxH = 12
  MaxL = 3
INVARIANTS Partition Bands
CHECK_DEADLOCK FALSE
