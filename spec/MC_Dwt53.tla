------------------------------ MODULE MC_Dwt53 ------------------------------
(* Exhaustive model checking of the 5/3 lifting and RCT designs (property C20). *)
EXTENDS Dwt53
CONSTANTS MaxLen, VMax, MaxW, MaxH, MaxL, RMax
Vals == (-VMax)..VMax
Vals2 == {-1, 0, 2}
RctVals == (-RMax)..RMax
VARIABLES kind, sig, i0, img, w, h, x0, y0, lv
vars == <<kind, sig, i0, img, w, h, x0, y0, lv>>

\* two-stage choice (geometry first, contents second) so that TLC's workers share the exploration
Blank == /\ sig = <<>> /\ i0 = 0 /\ img = <<>> /\ w = 0 /\ h = 0 /\ x0 = 0 /\ y0 = 0 /\ lv = 0
Init == kind = "start" /\ Blank
Geometry ==
  /\ kind = "start"
  /\ \/ /\ kind' = "1dA" /\ w' \in 1..MaxLen /\ i0' \in 0..3 /\ UNCHANGED <<sig, img, h, x0, y0, lv>>
     \/ /\ kind' = "2dA" /\ w' \in 1..MaxW /\ h' \in 1..MaxH /\ x0' \in 0..3 /\ y0' \in 0..3 /\ lv' \in 1..MaxL /\ UNCHANGED <<sig, img, i0>>
     \/ /\ kind' = "rctA" /\ i0' \in RctVals /\ UNCHANGED <<sig, img, w, h, x0, y0, lv>>
Contents ==
  \/ /\ kind = "1dA" /\ kind' = "1d" /\ sig' \in [1..w -> Vals] /\ UNCHANGED <<i0, img, w, h, x0, y0, lv>>
  \/ /\ kind = "2dA" /\ kind' = "2d" /\ img' \in [1..h -> [1..w -> Vals2]] /\ UNCHANGED <<sig, i0, w, h, x0, y0, lv>>
  \/ /\ kind = "rctA" /\ kind' = "rct" /\ \E g \in RctVals, b \in RctVals : sig' = <<i0, g, b>> /\ UNCHANGED <<i0, img, w, h, x0, y0, lv>>
Next == Geometry \/ Contents
Spec == Init /\ [][Next]_vars

Lift1D == kind = "1d" => /\ Inv1D(Fwd1D(sig, i0), i0) = sig
                         /\ Len(Fwd1D(sig, i0)) = Len(sig)
Lift2D == kind = "2d" => InvML(FwdML(img, w, h, x0, y0, lv), w, h, x0, y0, lv) = img
Rct == kind = "rct" => LET t == RctFwd(sig[1], sig[2], sig[3]) IN RctInv(t[1], t[2], t[3]) = sig
\* the number of low-pass coefficients agrees with the TileGrid resolution formula ceil(i1/2) - ceil(i0/2)
LowCount == kind = "1d" => LowLen(Len(sig), i0) = CeilHalf(i0 + Len(sig)) - CeilHalf(i0)
=============================================================================
