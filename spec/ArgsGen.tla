------------------------------- MODULE ArgsGen -------------------------------
(* C17 generator: every tuple of spec/Args.tla's boundary lattice is one initial state. *)
EXTENDS Args
VARIABLES a
Init == \E enc \in Encoders :
           \/ a = Nominal(enc)
           \/ \E i \in 1..Len(Fields) : \E v \in FieldVals(enc, Fields[i]) : a = [Nominal(enc) EXCEPT ![Fields[i]] = v]
           \/ \E i \in 1..Len(Fields), j \in 1..Len(Fields) : i < j /\
                \E v \in FieldVals(enc, Fields[i]), u \in FieldVals(enc, Fields[j]) :
                  a = [Nominal(enc) EXCEPT ![Fields[i]] = v, ![Fields[j]] = u]
Next == UNCHANGED a
Spec == Init /\ [][Next]_a
Emit == Sane(a) => PrintT("@@SCN|" \o ToJson(a))
=============================================================================
