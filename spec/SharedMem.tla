------------------------------ MODULE SharedMem ------------------------------
(***************************************************************************)
(* Property C18: the shared-memory model of concurrent codec calls.        *)
(*                                                                         *)
(* The access model is EXTRACTED FROM THE SOURCES on every run (vdrive     *)
(* extract-shared): for each registered codec entry point the writes it    *)
(* can reach to (a) package-level variables, (b) fields of the codec       *)
(* object, (c) fields of a parameters object, with the facts "inside a     *)
(* conditional" and "function takes a lock / sync.Once".  Reads are        *)
(* over-approximated: every call may read every package-level variable,    *)
(* every field of its codec object and every field of its parameters.      *)
(*                                                                         *)
(* Processes are goroutines calling Encode / Decode on the registered      *)
(* (shared) codec objects with nil, private or ONE shared, already valid   *)
(* parameters object.  A write to a parameters field that sits inside a    *)
(* conditional is a repair of an invalid value and does not execute for an *)
(* already-valid object; an unconditional one executes on every call.      *)
(*                                                                         *)
(* NoRace: no two calls in flight such that one writes a location the      *)
(* other touches without a common guard.  StaticObligation: the schedule-  *)
(* independent part of the property (no non-init write to a package-level  *)
(* variable, no write to a codec field).                                   *)
(***************************************************************************)
EXTENDS Integers, Sequences, FiniteSets, TLC, Json
CONSTANTS ModelFile, NProcs
M == ndJsonDeserialize(ModelFile)
OpIdx == {i \in 1..Len(M) : M[i].t = "op"}
Static == {i \in 1..Len(M) : M[i].t = "static"}
Modes == {"nil", "private", "shared"}

W(i) == {M[i].w[k] : k \in 1..Len(M[i].w)}
\* locations an instance really writes
EffWrites(i, mode) ==
  {w.loc : w \in {v \in W(i) : (v.kind \in {"global", "codecfield"} /\ ~v.guard) \/ (v.kind = "paramfield" /\ mode = "shared" /\ ~v.cond /\ ~v.guard)}}
\* does instance (j, mj) touch location loc that instance (i, mi) writes?  (reads over-approximated)
Touches(j, mj, i, mi, w) ==
  \/ w.kind = "global"
  \/ w.kind = "codecfield" /\ M[j].codec = M[i].codec
  \/ w.kind = "paramfield" /\ mj = "shared" /\ mi = "shared" /\ M[j].codec = M[i].codec
Conflict(i, mi, j, mj) ==
  \E w \in W(i) : w.loc \in EffWrites(i, mi) /\ Touches(j, mj, i, mi, w)

VARIABLES pc, cur
vars == <<pc, cur>>
Procs == 1..NProcs
Init == pc = [p \in Procs |-> "idle"] /\ cur = [p \in Procs |-> <<0, "nil">>]
Begin(p) == /\ pc[p] = "idle" /\ \E i \in OpIdx, m \in Modes : cur' = [cur EXCEPT ![p] = <<i, m>>]
            /\ pc' = [pc EXCEPT ![p] = "running"]
End(p) == pc[p] = "running" /\ pc' = [pc EXCEPT ![p] = "done"] /\ UNCHANGED cur
Next == \E p \in Procs : Begin(p) \/ End(p)
Spec == Init /\ [][Next]_vars

NoRace == \A p, q \in Procs : (p # q /\ pc[p] = "running" /\ pc[q] = "running")
                                => ~Conflict(cur[p][1], cur[p][2], cur[q][1], cur[q][2])
\* (the reference to pc only makes this a state-level formula: TLC refuses to continue past a constant-level FALSE invariant)
StaticObligation ==
  pc \in [Procs -> {"idle", "running", "done"}] =>
  \A s \in Static : LET w == M[s].w IN
     /\ ~(w.kind = "global" /\ ~w.ininit /\ ~w.guard)
     /\ w.kind # "codecfield"
\* every pair of calls in flight together is a schedule for the race-detector run
Emit == (\A p \in Procs : pc[p] = "running") =>
          PrintT("@@SCN|" \o ToJson([calls |-> [p \in Procs |-> [codec |-> M[cur[p][1]].codec, op |-> M[cur[p][1]].op, mode |-> cur[p][2]]]]))
=============================================================================
