------------------------------- MODULE JpegDCT -------------------------------
(***************************************************************************)
(* ITU-T T.81 sequential DCT mode, the discrete parts:                     *)
(*  - zig-zag order (Figure A.6), DQT contents (B.2.4.1);                  *)
(*  - the worst-case effect of the DECLARED quantisation tables on one     *)
(*    sample (property C11): a coefficient error of at most Q/2 passes     *)
(*    through x = 1/4 sum C(u)C(v) S(u,v) cos cos, so                      *)
(*        |error| <= 1/8 * sum_{u,v} C(u) C(v) Q[u,v];                     *)
(*    evaluated in integers scaled by 100 with every irrational rounded UP *)
(*    (C(0)C(0) = 1/2, C(0)C(v) = 0.7072, else 1), through the absolute    *)
(*    inverse colour matrix for three components;                          *)
(* The coefficient-domain reference encoder of property C15 is module      *)
(* JpegSeq.                                                                *)
(***************************************************************************)
EXTENDS Markers

\* Figure A.6: natural-order index (0..63, row-major v*8+u) of zig-zag position k (1-based sequence)
ZZ == << 0,  1,  8, 16,  9,  2,  3, 10, 17, 24, 32, 25, 18, 11,  4,  5,
        12, 19, 26, 33, 40, 48, 41, 34, 27, 20, 13,  6,  7, 14, 21, 28,
        35, 42, 49, 56, 57, 50, 43, 36, 29, 22, 15, 23, 30, 37, 44, 51,
        58, 59, 52, 45, 38, 31, 39, 46, 53, 60, 61, 54, 47, 55, 62, 63 >>
IsPermutation == {ZZ[k] : k \in 1..64} = 0..63

\* C(u)C(v) * 100, rounded up
W100(k) == LET n == ZZ[k]  u == n % 8  v == n \div 8 IN IF u = 0 /\ v = 0 THEN 50 ELSE IF u = 0 \/ v = 0 THEN 71 ELSE 100

\* quantisation tables of a stream: Tq -> sequence of 64 entries in zig-zag order (<<>> if not defined)
RECURSIVE DqtScan(_, _, _, _)
DqtScan(s, a, b, acc) ==
  IF a > b THEN acc
  ELSE LET pq == s[a] \div 16  tq == s[a] % 16
           tab == [k \in 1..64 |-> IF pq = 0 THEN s[a + k] ELSE s[a + 2 * k - 1] * 256 + s[a + 2 * k]]
       IN IF tq > 3 THEN acc ELSE DqtScan(s, a + 65 + 64 * pq, b, [acc EXCEPT ![tq] = tab])
RECURSIVE DqtAll(_, _, _, _)
DqtAll(s, segs, k, acc) ==
  IF k > Len(segs) THEN acc
  ELSE DqtAll(s, segs, k + 1, IF segs[k][1] = 219 THEN DqtScan(s, segs[k][2], segs[k][3], acc) ELSE acc)
QTables(s) == LET w == Segments(s, 3, {218}, {}, <<>>) IN DqtAll(s, w.segs, 1, [t \in 0..3 |-> <<>>])

RECURSIVE Sum100(_, _, _)
Sum100(tab, k, acc) == IF k > 64 THEN acc ELSE Sum100(tab, k + 1, acc + W100(k) * tab[k])
\* bound for one component quantised with table tab, in 1/800 grey levels
Comp800(tab) == Sum100(tab, 1, 0)
CeilDiv(a, b) == (a + b - 1) \div b

\* per-sample bounds of a decoded frame: grey = <<B>>; three components = <<BR, BG, BB>> (JFIF inverse matrix, rounded up)
GreyBound(tabY) == CeilDiv(Comp800(tabY), 800) + 2
RgbBounds(tabY, tabCb, tabCr) ==
  LET y == Comp800(tabY)  cb == Comp800(tabCb)  cr == Comp800(tabCr) IN
  << CeilDiv(100 * y + 141 * cr, 80000) + 5,
     CeilDiv(100 * y + 35 * cb + 72 * cr, 80000) + 5,
     CeilDiv(100 * y + 178 * cb, 80000) + 5 >>
=============================================================================
