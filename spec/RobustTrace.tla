----------------------------- MODULE RobustTrace -----------------------------
(***************************************************************************)
(* Trace specification for C08 and C09.  Event "run": one executed decode  *)
(* (or an aggregate of n benign ones from the same plan line):             *)
(*   api, tpl, edit, n, outcome in {ok,error,panic,timeout,oom-or-fatal,   *)
(*   crash}, site, class, ms (max), alloc (max KiB allocated during the    *)
(*   call), slen (stream length), head (first bytes of the mutated stream, *)
(*   logged for non-benign cases), info (FrameInfo of codec-level entries).*)
(* C08: outcome is ok or error.                                            *)
(* C09: if the stream is at most 64 KiB and its own first frame header     *)
(*      declares S <= 2^22 samples (or nothing), then no timeout, no fatal *)
(*      out-of-memory, time <= 10 s, memory <= 512 MiB + 64*S.  S is       *)
(*      computed HERE from the logged bytes, independently of the library. *)
(***************************************************************************)
EXTENDS Integers, Sequences, TLC, Json
CONSTANTS TraceFile, Prop
Tr == ndJsonDeserialize(TraceFile)
VARIABLES l, nacc
tvars == <<l, nacc>>
E == Tr[l]

Cap == 1073741824                                       \* 2^30: "more than 2^22 anyway"
Mul(a, b) == IF a = 0 \/ b = 0 THEN 0 ELSE IF a > Cap \div b THEN Cap ELSE IF a * b > Cap THEN Cap ELSE a * b
U16(s, i) == s[i] * 256 + s[i + 1]
U32c(s, i) == IF s[i] >= 64 THEN Cap ELSE ((s[i] * 256 + s[i + 1]) * 256 + s[i + 2]) * 256 + s[i + 3]
Sub(a, b) == IF a = Cap THEN Cap ELSE IF a > b THEN a - b ELSE 0

\* first SOFn of a T.81 / T.87 stream: walk marker segments from position 3
RECURSIVE JpegS(_, _)
JpegS(h, i) ==
  IF i + 3 > Len(h) \/ h[i] # 255 THEN 0
  ELSE LET m == h[i + 1] IN
    IF m = 216 \/ (m >= 208 /\ m <= 215) \/ m = 1 THEN JpegS(h, i + 2)
    ELSE IF (m >= 192 /\ m <= 207 /\ m \notin {196, 200, 204}) \/ m = 247
         THEN (IF i + 9 > Len(h) THEN 0 ELSE Mul(Mul(U16(h, i + 7), U16(h, i + 5)), h[i + 9]))
    ELSE IF m = 218 \/ m = 217 THEN 0
    ELSE LET L == U16(h, i + 2) IN IF L < 2 THEN 0 ELSE JpegS(h, i + 2 + L)
\* SIZ of a T.800 codestream (must directly follow SOC)
J2kS(h) ==
  IF Len(h) < 44 \/ h[3] # 255 \/ h[4] # 81 THEN 0
  ELSE Mul(Mul(Sub(U32c(h, 9), U32c(h, 17)), Sub(U32c(h, 13), U32c(h, 21))), U16(h, 41))
DeclaredS ==
  IF E.api = "codec:rle" THEN Mul(Mul(E.info[1], E.info[2]), E.info[4])
  ELSE LET h == E.head IN
       IF Len(h) >= 4 /\ h[1] = 255 /\ h[2] = 79 THEN J2kS(h)
       ELSE IF Len(h) >= 4 /\ h[1] = 255 /\ h[2] = 216 THEN JpegS(h, 3) ELSE 0

\* memory of the call in KiB: the measured resident-set peak growth when the case was re-run alone
\* (peak > 0), otherwise the cumulative allocation, which over-approximates it
Mem == IF E.peak > 0 THEN E.peak ELSE E.alloc
Benign == E.outcome \in {"ok", "error"}
C08Reason == IF Benign \/ E.outcome \in {"timeout", "oom-or-fatal", "skipped-large"} THEN "ok" ELSE E.outcome
C09Applicable == E.slen <= 65536 /\ (E.head = <<>> \/ DeclaredS <= 4194304)
C09Reason ==
  IF ~C09Applicable THEN "ok"
  ELSE IF E.outcome = "skipped-large" THEN "INFRA"          \* the scheduler cut short a case that is in scope: checker error
  ELSE IF E.outcome = "timeout" \/ E.ms > 10000 THEN "timeout"
  ELSE IF E.outcome \in {"oom-or-fatal", "crash"} THEN "fatal"
  ELSE IF Mem > 524288 /\ (E.head = <<>> \/ (Mem - 524288) * 16 > DeclaredS) THEN "heap"     \* KiB; 64 bytes per sample
  ELSE "ok"
Reason == IF Prop = "C08" THEN C08Reason ELSE C09Reason
Key == IF Prop = "C08" THEN "C08/" \o E.outcome \o "/" \o E.site \o "/" \o E.class
       ELSE "C09/" \o Reason \o "/" \o E.api \o "/" \o (IF E.site = "" THEN "-" ELSE E.site)

Init == l = 1 /\ nacc = 0
Step ==
  /\ l <= Len(Tr) /\ l' = l + 1
  /\ IF E.ev # "run" THEN UNCHANGED nacc
     ELSE IF Reason = "ok" THEN nacc' = nacc + E.n
     ELSE IF Reason = "INFRA" THEN PrintT("@@INFO|INFRA in-scope case was skipped: " \o E.tpl \o " " \o E.edit) /\ UNCHANGED nacc
     ELSE PrintT("@@REJECT|" \o ToString(E.scn) \o "|" \o ToString(E.k) \o "|" \o Key \o "|" \o E.tpl \o " " \o E.edit \o " ms=" \o ToString(E.ms)
                 \o " allocMiB=" \o ToString(E.alloc \div 1024) \o " peakMiB=" \o ToString(E.peak \div 1024) \o " S=" \o ToString(IF E.head = <<>> THEN -1 ELSE DeclaredS)) /\ UNCHANGED nacc
Finish == l = Len(Tr) + 1 /\ PrintT("@@ACCEPT|" \o ToString(nacc)) /\ PrintT("@@DONE|" \o ToString(Len(Tr))) /\ l' = l + 1 /\ UNCHANGED nacc
TraceSpec == Init /\ [][Step \/ Finish]_tvars
=============================================================================
