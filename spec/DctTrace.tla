------------------------------ MODULE DctTrace ------------------------------
(***************************************************************************)
(* Trace specification for C11: every sample decoded by baseline.Decode /  *)
(* extended.Decode differs from the source by no more than the bound that  *)
(* the stream's OWN quantisation tables imply (JpegDCT), the decoder       *)
(* accepts the encoder's stream, the geometry is identical, and at quality *)
(* 100 no greyscale sample is off by more than 10.                         *)
(***************************************************************************)
EXTENDS JpegDCT, Json
CONSTANT TraceFile
Tr == ndJsonDeserialize(TraceFile)
VARIABLES l, cur, nacc
tvars == <<l, cur, nacc>>
E == Tr[l]
Abs(x) == IF x < 0 THEN -x ELSE x

\* Tq of each frame component from SOF (walker of module Markers re-used through the segment list)
Hdr(s) == WalkJpeg(s)
Bounds(s, c) ==
  LET w == Segments(s, 3, {218}, {}, <<>>)
      kf == CHOOSE k \in 1..Len(w.segs) : w.segs[k][1] \in {192, 193}
      fa == w.segs[kf][2]
      q == QTables(s)
      tq(i) == s[fa + 8 + 3 * (i - 1)]
  IN IF c = 1 THEN <<GreyBound(q[tq(1)])>> ELSE RgbBounds(q[tq(1)], q[tq(2)], q[tq(3)])

DecReason ==
  IF E.err # "" THEN "decoder rejects the encoder's stream"
  ELSE IF E.geom.w # cur.cfg.w \/ E.geom.h # cur.cfg.h \/ E.geom.c # cur.cfg.c \/ E.geom.p # cur.cfg.p THEN "geometry differs"
  ELSE IF Len(E.out) # Len(cur.src) THEN "sample count differs"
  ELSE LET h == Hdr(cur.stream) IN
       IF ~h.ok THEN "stream not well-formed: " \o h.why
       ELSE LET b == Bounds(cur.stream, cur.cfg.c)  c == cur.cfg.c IN
            IF \E i \in 1..Len(cur.src) : Abs(E.out[i] - cur.src[i]) > b[((i - 1) % c) + 1] THEN "error exceeds the declared-quantisation bound"
            ELSE IF cur.cfg.q = 100 /\ c = 1 /\ \E i \in 1..Len(cur.src) : Abs(E.out[i] - cur.src[i]) > 10 THEN "quality 100 error above 10"
            ELSE "ok"
Reason == CASE E.ev = "enc" -> (IF E.err # "" THEN "encode error" ELSE "ok") [] E.ev = "dec" -> DecReason [] OTHER -> "ok"

Init == l = 1 /\ cur = [cfg |-> <<>>, src |-> <<>>, stream |-> <<>>] /\ nacc = 0
Step ==
  /\ l <= Len(Tr) /\ l' = l + 1
  /\ IF E.ev \notin {"enc", "dec"} THEN UNCHANGED <<cur, nacc>>
     ELSE LET r == Reason IN
          IF r = "ok" THEN /\ nacc' = nacc + (IF E.ev = "dec" THEN 1 ELSE 0)
                           /\ cur' = IF E.ev = "enc" THEN [cfg |-> E.cfg, src |-> E.src, stream |-> E.stream] ELSE cur
          ELSE LET cfg == IF E.ev = "enc" THEN E.cfg ELSE cur.cfg IN
               /\ PrintT("@@REJECT|" \o ToString(E.scn) \o "|" \o ToString(E.k) \o "|C11/bound/" \o cfg.api \o "/" \o r \o "|" \o ToString(cfg) \o " err=" \o E.err)
               /\ UNCHANGED <<cur, nacc>>
Finish == l = Len(Tr) + 1 /\ PrintT("@@ACCEPT|" \o ToString(nacc)) /\ PrintT("@@DONE|" \o ToString(Len(Tr))) /\ l' = l + 1 /\ UNCHANGED <<cur, nacc>>
TraceSpec == Init /\ [][Step \/ Finish]_tvars
=============================================================================
