SPECIFICATION Spec
CONSTANTS
  Alphabet = {0, 1, 255}
  MaxLen = 8
  MaxPkt = 3
INVARIANTS RoundTrip PacketLimit NoNop PendingBounded TypeOK
CHECK_DEADLOCK FALSE
