--------------------------------- MODULE Mel ---------------------------------
(***************************************************************************)
(* ISO/IEC 15444-15 (HTJ2K) clause 7.3.3: the MEL adaptive run-length      *)
(* coder of the HT cleanup pass.  13 states k = 0..12 with exponents       *)
(* MEL_E[k]; a symbol 0 extends the current run, a run of 2^E[k] zeros is  *)
(* coded as one 1-bit (k moves up), a symbol 1 as a 0-bit followed by the  *)
(* E[k]-bit length of the interrupted run (k moves down).  Bits are packed *)
(* MSB first; the byte after 0xFF carries seven bits.  Written from the    *)
(* standard's pseudo-code (encodeMEL / decodeMELSym).                      *)
(***************************************************************************)
EXTENDS Integers, Sequences, TLC
MelE == <<0, 0, 0, 1, 1, 1, 2, 2, 2, 3, 3, 4, 5>>
E(k) == MelE[k + 1]
BitsOf(v, n) == [i \in 1..n |-> (v \div 2^(n - i)) % 2]

\* encoder machine: state [k, run, bits]
Enc0 == [k |-> 0, run |-> 0, bits |-> <<>>]
EncSym(s, sym) ==
  IF sym = 0
  THEN IF s.run + 1 >= 2^E(s.k) THEN [k |-> IF s.k < 12 THEN s.k + 1 ELSE 12, run |-> 0, bits |-> Append(s.bits, 1)]
       ELSE [s EXCEPT !.run = s.run + 1]
  ELSE [k |-> IF s.k > 0 THEN s.k - 1 ELSE 0, run |-> 0, bits |-> Append(s.bits, 0) \o BitsOf(s.run, E(s.k))]
\* termination (termMEL): an open run is closed by a 1-bit, which promises more zeros than were coded; the decoder stops
\* after the symbols it needs
EncEnd(s) == IF s.run > 0 THEN Append(s.bits, 1) ELSE s.bits
RECURSIVE EncAll(_, _, _)
EncAll(s, syms, i) == IF i > Len(syms) THEN EncEnd(s) ELSE EncAll(EncSym(s, syms[i]), syms, i + 1)
Encode(syms) == EncAll(Enc0, syms, 1)

\* bit packing with the 0xFF rule; the last byte is padded with zeros
RECURSIVE Pack(_, _, _)
Pack(bits, i, acc) ==
  IF i > Len(bits) THEN acc
  ELSE LET n == IF Len(acc) > 0 /\ acc[Len(acc)] = 255 THEN 7 ELSE 8
           RECURSIVE val(_, _)
           val(j, a) == IF j = n THEN a ELSE val(j + 1, 2 * a + (IF i + j <= Len(bits) THEN bits[i + j] ELSE 0))
       IN Pack(bits, i + n, Append(acc, val(0, 0)))
RECURSIVE Unpack(_, _, _)
Unpack(by, i, acc) ==
  IF i > Len(by) THEN acc
  ELSE LET n == IF i > 1 /\ by[i - 1] = 255 THEN 7 ELSE 8 IN Unpack(by, i + 1, acc \o BitsOf(by[i] % 2^n, n))

\* decoder: n symbols from the bit sequence (reading past the end yields 1-bits: the run goes on)
BitAt(bs, p) == IF p <= Len(bs) THEN bs[p] ELSE 1
RECURSIVE BitsVal(_, _, _, _)
BitsVal(bs, p, n, a) == IF n = 0 THEN a ELSE BitsVal(bs, p + 1, n - 1, 2 * a + BitAt(bs, p))
RECURSIVE Dec(_, _, _, _, _)
Dec(bs, p, k, n, acc) ==
  IF Len(acc) >= n THEN SubSeq(acc, 1, n)
  ELSE IF BitAt(bs, p) = 1 THEN Dec(bs, p + 1, IF k < 12 THEN k + 1 ELSE 12, n, acc \o [i \in 1..(2^E(k)) |-> 0])
  ELSE LET r == BitsVal(bs, p + 1, E(k), 0) IN Dec(bs, p + 1 + E(k), IF k > 0 THEN k - 1 ELSE 0, n, acc \o [i \in 1..r |-> 0] \o <<1>>)
Decode(bs, n) == Dec(bs, 1, 0, n, <<>>)
=============================================================================
