SPECIFICATION Spec
CONSTANTS
  MaxLen = 11
  Ctxs = {0, 1}
  Prefix <- NoPrefix
INVARIANTS RoundTrip Stuffing Registers
CHECK_DEADLOCK FALSE
