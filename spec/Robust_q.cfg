SPECIFICATION Spec
CONSTANTS
  TplFile = "TPLFILE"
  Full = FALSE
  BodyStride = 9
CHECK_DEADLOCK FALSE
