SPECIFICATION Spec
CONSTANTS
  Vals <- ValsT
  K = 3
  Styles = {0, 1, 2, 3, 4, 5, 8, 9, 10, 13, 16, 21, 32, 37, 42, 63}
  Shapes <- ShapesT
INVARIANTS RoundTrip NoMarkers SegmentsCover
CHECK_DEADLOCK FALSE
