SPECIFICATION Spec
CONSTANTS
  Vals <- ValsT
  K = 3
  Styles = {0, 1, 2, 4, 5, 8, 13, 21, 32, 63}
  Shapes <- ShapesT
INVARIANTS RoundTrip NoMarkers SegmentsCover
CHECK_DEADLOCK FALSE
