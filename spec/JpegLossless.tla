---------------------------- MODULE JpegLossless ----------------------------
(***************************************************************************)
(* ITU-T T.81 lossless mode (Annex H) with Huffman coding (Annex C, F.1.2, *)
(* F.2.2) as an explicit machine: reference DECODER (one step per MCU) and *)
(* reference ENCODER, both written from the Recommendation.  Scope: one    *)
(* scan, all components in the scan with H = V = 1 (sample interleave),    *)
(* point transform Pt, predictors 1..7, Huffman tables 0..3, no restart    *)
(* interval.  Used by properties C13 (independent codec) and C02.          *)
(***************************************************************************)
EXTENDS Integers, Sequences, TLC

Min(a, b) == IF a < b THEN a ELSE b
U16(s, i) == s[i] * 256 + s[i + 1]
Bits(v, n) == [i \in 1..n |-> (v \div 2^(n - i)) % 2]
RECURSIVE BitsVal(_, _, _, _)
BitsVal(bs, i, n, acc) == IF n = 0 THEN acc ELSE BitsVal(bs, i + 1, n - 1, 2 * acc + bs[i])

(***************************************************************************)
(* Annex C: Huffman table from BITS (16 counts) and HUFFVAL                 *)
(***************************************************************************)
\* C.2 Generate_size_table: HUFFSIZE as a sequence of code lengths, one per HUFFVAL entry
RECURSIVE SizeTable(_, _, _)
SizeTable(bits, i, acc) == IF i > 16 THEN acc ELSE SizeTable(bits, i + 1, acc \o [j \in 1..bits[i] |-> i])

\* C.2 Generate_code_table: canonical codes (as integers) for the size table
RECURSIVE CodeTable(_, _, _, _, _)
CodeTable(sizes, k, code, si, acc) ==
  IF k > Len(sizes) THEN acc
  ELSE IF sizes[k] = si THEN CodeTable(sizes, k + 1, code + 1, si, Append(acc, code))
  ELSE CodeTable(sizes, k, code * 2, si + 1, acc)

\* table record: sizes[k], codes[k], vals[k]
MkTable(bits, vals) ==
  LET sz == SizeTable(bits, 1, <<>>) IN
  [sizes |-> sz, codes |-> IF Len(sz) = 0 THEN <<>> ELSE CodeTable(sz, 1, 0, sz[1], <<>>), vals |-> vals, bits |-> bits]

\* validity (B.2.4.2, C.2): count matches, every code fits its length, no code of all one-bits
ValidTable(t) ==
  /\ Len(t.sizes) = Len(t.vals) /\ Len(t.vals) >= 1 /\ Len(t.codes) = Len(t.vals)
  /\ \A k \in 1..Len(t.codes) : t.codes[k] < 2^(t.sizes[k]) - 1
  /\ \A j, k \in 1..Len(t.vals) : j # k => t.vals[j] # t.vals[k]

\* F.2.2.3 DECODE: read bits until the code matches; returns <<value, next pos>> or <<-1, pos>>
RECURSIVE HuffDecode(_, _, _, _, _)
HuffDecode(t, bs, pos, code, len) ==
  IF len > 16 \/ pos > Len(bs) THEN <<-1, pos>>
  ELSE LET c == 2 * code + bs[pos]
           l == len + 1
           hit == {k \in 1..Len(t.codes) : t.sizes[k] = l /\ t.codes[k] = c}
       IN IF hit # {} THEN <<t.vals[CHOOSE k \in hit : TRUE], pos + 1>>
          ELSE HuffDecode(t, bs, pos + 1, c, l)

CodeOf(t, v) == LET k == CHOOSE k \in 1..Len(t.vals) : t.vals[k] = v IN Bits(t.codes[k], t.sizes[k])
HasVal(t, v) == \E k \in 1..Len(t.vals) : t.vals[k] = v

(***************************************************************************)
(* H.1.2.2 / F.1.2.1: difference categories.  DIFF is computed modulo 2^16 *)
(* and lies in -32767..32768; category 16 (DIFF = 32768) has no extra bits *)
(***************************************************************************)
Diff16(x, px) == LET d == (x - px) % 65536 IN IF d > 32768 THEN d - 65536 ELSE d      \* -32767 .. 32768
Cat(d) == IF d = 0 THEN 0 ELSE CHOOSE s \in 1..16 : (IF d < 0 THEN -d ELSE d) < 2^s /\ (IF d < 0 THEN -d ELSE d) >= 2^(s - 1)
\* F.1.2.1.1: additional bits: d >= 0 -> low s bits of d; d < 0 -> low s bits of d - 1
ExtraBits(d, s) == IF s = 0 \/ s = 16 THEN <<>> ELSE Bits(IF d >= 0 THEN d ELSE d - 1 + 2^s, s)
\* F.2.2.1 EXTEND
Extend(v, s) == IF v < 2^(s - 1) THEN v - 2^s + 1 ELSE v

(***************************************************************************)
(* H.1.2.1 prediction                                                       *)
(***************************************************************************)
FloorHalf(a) == a \div 2        \* arithmetic shift right by one (floor), as ">> 1" in Table H.1
Predict(sel, ra, rb, rc) ==
  CASE sel = 1 -> ra [] sel = 2 -> rb [] sel = 3 -> rc [] sel = 4 -> ra + rb - rc
    [] sel = 5 -> ra + FloorHalf(rb - rc) [] sel = 6 -> rb + FloorHalf(ra - rc)
    [] sel = 7 -> FloorHalf(ra + rb) [] OTHER -> 0

\* px for sample (x,y) (1-based) of a component whose reconstructed lines are prev / cur
Px(hd, prev, cur, x, y) ==
  IF x = 1 /\ y = 1 THEN 2^(hd.p - hd.pt - 1)
  ELSE IF y = 1 THEN cur[x - 1]                      \* first line: Ra
  ELSE IF x = 1 THEN prev[1]                         \* first column: Rb
  ELSE Predict(hd.ss, cur[x - 1], prev[x], prev[x - 1])

(***************************************************************************)
(* Marker syntax (Annex B) - only what a lossless single-scan stream needs  *)
(***************************************************************************)
\* parse the tables of one DHT segment body s[i..e]
RECURSIVE DhtTables(_, _, _, _)
DhtTables(s, i, e, acc) ==
  IF i > e THEN acc
  ELSE IF i + 16 > e THEN [acc EXCEPT !.ok = FALSE, !.why = "DHT truncated"]
  ELSE LET tc == s[i] \div 16  th == s[i] % 16
           bits == [k \in 1..16 |-> s[i + k]]
           RECURSIVE Sum(_, _)
           Sum(k, a) == IF k > 16 THEN a ELSE Sum(k + 1, a + bits[k])
           n == Sum(1, 0)
       IN IF i + 16 + n > e THEN [acc EXCEPT !.ok = FALSE, !.why = "DHT values truncated"]
          ELSE IF tc = 0 /\ th <= 3
               THEN DhtTables(s, i + 17 + n, e, [acc EXCEPT !.tab[th] = MkTable(bits, SubSeq(s, i + 17, i + 16 + n)), !.def[th] = TRUE])
               ELSE DhtTables(s, i + 17 + n, e, acc)         \* AC-class tables are legal and unused

EmptyTab == [sizes |-> <<>>, codes |-> <<>>, vals |-> <<>>, bits |-> <<>>]
RECURSIVE Walk(_, _, _)
Walk(s, i, acc) ==
  IF i + 1 > Len(s) \/ s[i] # 255 THEN [acc EXCEPT !.ok = FALSE, !.why = "marker expected"]
  ELSE LET m == s[i + 1] IN
    IF m = 216 THEN Walk(s, i + 2, acc)
    ELSE IF i + 3 > Len(s) THEN [acc EXCEPT !.ok = FALSE, !.why = "truncated segment"]
    ELSE LET L == U16(s, i + 2) IN
      IF L < 2 \/ i + 1 + L > Len(s) THEN [acc EXCEPT !.ok = FALSE, !.why = "segment length"]
      ELSE IF m = 195                                                   \* SOF3
           THEN Walk(s, i + 2 + L, [acc EXCEPT !.p = s[i + 4], !.h = U16(s, i + 5), !.w = U16(s, i + 7), !.nf = s[i + 9], !.sof = TRUE,
                     !.sofok = (L = 8 + 3 * s[i + 9]),
                     !.cid = [k \in 1..s[i + 9] |-> s[i + 10 + 3 * (k - 1)]],
                     !.hv = [k \in 1..s[i + 9] |-> s[i + 11 + 3 * (k - 1)]]])
      ELSE IF m \in (192..207) \ {195, 196, 200, 204} THEN [acc EXCEPT !.ok = FALSE, !.why = "not a lossless Huffman frame"]
      ELSE IF m = 196 THEN Walk(s, i + 2 + L, DhtTables(s, i + 4, i + 1 + L, acc))
      ELSE IF m = 221 THEN Walk(s, i + 2 + L, [acc EXCEPT !.ri = U16(s, i + 4)])   \* DRI
      ELSE IF m = 218                                                   \* SOS
           THEN LET ns == s[i + 4] IN
                [acc EXCEPT !.ns = ns, !.sosok = (L = 6 + 2 * ns),
                            !.scs = [k \in 1..ns |-> s[i + 5 + 2 * (k - 1)]],
                            !.td = [k \in 1..ns |-> s[i + 6 + 2 * (k - 1)] \div 16],
                            !.ss = s[i + 5 + 2 * ns], !.pt = s[i + 7 + 2 * ns] % 16, !.scan = i + 2 + L]
      ELSE Walk(s, i + 2 + L, acc)                                      \* APPn, COM, DQT, ...

Header(s) ==
  LET z == [ok |-> TRUE, why |-> "", sof |-> FALSE, sofok |-> FALSE, sosok |-> FALSE, p |-> 0, h |-> 0, w |-> 0, nf |-> 0,
            cid |-> <<>>, hv |-> <<>>, ns |-> 0, scs |-> <<>>, td |-> <<>>, ss |-> 0, pt |-> 0, scan |-> 0, ri |-> 0,
            tab |-> [t \in 0..3 |-> EmptyTab], def |-> [t \in 0..3 |-> FALSE]]
  IN IF Len(s) < 4 \/ s[1] # 255 \/ s[2] # 216 THEN [z EXCEPT !.ok = FALSE, !.why = "no SOI"] ELSE Walk(s, 1, z)

\* a stream this machine can decode
Decodable(hd) ==
  /\ hd.ok /\ hd.sof /\ hd.sofok /\ hd.sosok /\ hd.scan > 0 /\ hd.ri = 0
  /\ hd.ns = hd.nf /\ hd.nf \in {1, 2, 3, 4} /\ hd.p \in 2..16 /\ hd.ss \in 1..7 /\ hd.pt < hd.p
  /\ \A k \in 1..hd.nf : hd.hv[k] = 17 /\ hd.scs[k] = hd.cid[k] /\ hd.td[k] \in 0..3 /\ hd.def[hd.td[k]] /\ ValidTable(hd.tab[hd.td[k]])

\* entropy-coded segment -> bits (B.1.1.5: FF 00 is a stuffed FF; FF followed by anything else ends the segment)
RECURSIVE Unstuff(_, _, _)
Unstuff(by, i, acc) ==
  IF i > Len(by) THEN acc
  ELSE IF by[i] = 255
       THEN IF i + 1 <= Len(by) /\ by[i + 1] = 0 THEN Unstuff(by, i + 2, acc \o Bits(255, 8)) ELSE acc
       ELSE Unstuff(by, i + 1, acc \o Bits(by[i], 8))

\* bits -> bytes with 1-padding of the last byte and FF 00 stuffing (F.1.2.3)
RECURSIVE Stuff(_, _, _)
Stuff(bs, i, acc) ==
  IF i > Len(bs) THEN acc
  ELSE LET v == BitsVal([j \in 1..8 |-> IF i + j - 1 <= Len(bs) THEN bs[i + j - 1] ELSE 1], 1, 8, 0)
       IN Stuff(bs, i + 8, IF v = 255 THEN acc \o <<255, 0>> ELSE Append(acc, v))

(***************************************************************************)
(* Decoder machine: one step decodes one sample of every component          *)
(***************************************************************************)
InitState(hd) ==
  [x |-> 1, y |-> 1, pos |-> 1,
   prev |-> [c \in 1..hd.nf |-> [i \in 1..hd.w |-> 0]],
   cur  |-> [c \in 1..hd.nf |-> [i \in 1..hd.w |-> 0]],
   out |-> <<>>, bits |-> <<>>]
Done(hd, s) == s.y > hd.h

\* decode one difference with table t: <<diff, next pos>> (pos = -1 on failure)
DecodeDiff(t, bs, pos) ==
  LET r == HuffDecode(t, bs, pos, 0, 0)
      ssss == r[1]
  IN IF ssss < 0 \/ ssss > 16 THEN <<0, -1>>
     ELSE IF ssss = 0 THEN <<0, r[2]>>
     ELSE IF ssss = 16 THEN <<32768, r[2]>>
     ELSE IF r[2] + ssss - 1 > Len(bs) THEN <<0, -1>>
     ELSE <<Extend(BitsVal(bs, r[2], ssss, 0), ssss), r[2] + ssss>>

LineOut(hd, line) == LET n == hd.w * hd.nf IN [i \in 1..n |-> line[((i - 1) % hd.nf) + 1][((i - 1) \div hd.nf) + 1]]

Advance(hd, s) ==
  IF s.x = hd.w
  THEN [s EXCEPT !.x = 1, !.y = s.y + 1, !.prev = s.cur, !.out = s.out \o LineOut(hd, s.cur)]
  ELSE [s EXCEPT !.x = s.x + 1]

RECURSIVE DecComps(_, _, _, _)
DecComps(hd, bs, s, c) ==
  IF c > hd.nf \/ s.pos < 0 THEN s
  ELSE LET px == Px(hd, s.prev[c], s.cur[c], s.x, s.y)
           r == DecodeDiff(hd.tab[hd.td[c]], bs, s.pos)
           v == (px + r[1]) % 65536                     \* H.1.2.1: modulo 2^16
       IN IF r[2] < 0 THEN [s EXCEPT !.pos = -1]
          ELSE DecComps(hd, bs, [s EXCEPT !.cur[c][s.x] = v, !.pos = r[2]], c + 1)

DecStep(hd, bs, s) == LET s1 == DecComps(hd, bs, s, 1) IN IF s1.pos < 0 THEN s1 ELSE Advance(hd, s1)

\* samples delivered to the application: reconstructed values shifted back by the point transform
Output(hd, out) == [i \in 1..Len(out) |-> out[i] * 2^hd.pt]

(***************************************************************************)
(* Encoder machine (reference encoder of the reverse direction of C13)      *)
(***************************************************************************)
RECURSIVE EncComps(_, _, _, _)
EncComps(hd, s, img, c) ==       \* img: pixel-interleaved samples already divided by 2^Pt
  IF c > hd.nf THEN s
  ELSE LET px == Px(hd, s.prev[c], s.cur[c], s.x, s.y)
           ix == img[((s.y - 1) * hd.w + (s.x - 1)) * hd.nf + c]
           d == Diff16(ix, px)
           ssss == Cat(d)
           t == hd.tab[hd.td[c]]
       IN EncComps(hd, [s EXCEPT !.cur[c][s.x] = ix, !.bits = s.bits \o CodeOf(t, ssss) \o ExtraBits(d, ssss)], img, c + 1)
EncStep(hd, s, img) == Advance(hd, EncComps(hd, s, img, 1))

\* marker segments of a conformant stream
Seg(m, body) == <<255, m, (Len(body) + 2) \div 256, (Len(body) + 2) % 256>> \o body
Sof3(hd) == Seg(195, <<hd.p, hd.h \div 256, hd.h % 256, hd.w \div 256, hd.w % 256, hd.nf>> \o
                      [i \in 1..(3 * hd.nf) |-> CASE (i - 1) % 3 = 0 -> hd.cid[(i - 1) \div 3 + 1]
                                                  [] (i - 1) % 3 = 1 -> 17 [] OTHER -> 0])
Dht(th, t) == Seg(196, <<th>> \o t.bits \o t.vals)
Sos(hd) == Seg(218, <<hd.nf>> \o [i \in 1..(2 * hd.nf) |-> IF i % 2 = 1 THEN hd.cid[(i + 1) \div 2] ELSE hd.td[i \div 2] * 16]
                     \o <<hd.ss, 0, hd.pt>>)
=============================================================================
