SPECIFICATION Spec
CONSTANTS
  MaxDim = 33
INVARIANTS TablesValid SelfWalk SelfDecode
CHECK_DEADLOCK FALSE
