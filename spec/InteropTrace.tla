---------------------------- MODULE InteropTrace ----------------------------
(***************************************************************************)
(* Trace specification for C15.  One scenario = one JPEG stream:           *)
(*   case  what the stream is (direction, producer, sampling, restarts)    *)
(*   ref   what the independent decoder (image/jpeg) made of it            *)
(*   lib   what a library decoder (baseline / extended) made of it         *)
(* fwd: the stream comes from baseline.Encode / extended.Encode: the       *)
(*      independent decoder must accept it, see the encoded geometry, and  *)
(*      agree with the library's own decoder within 2 (grey) / 6 (RGB).    *)
(* rev: the stream comes from image/jpeg.Encode or from the reference      *)
(*      encoder machine of JpegSeq (TLC-generated): both library decoders  *)
(*      must accept it, return w x h x c tightly packed samples, agree     *)
(*      with the independent decoder within the same tolerance and, for    *)
(*      DC-only streams, with the image JpegSeq!FlatImage specifies.       *)
(* A reference stream the independent decoder rejects, or a specified      *)
(* image it disagrees with, is an error of this machinery (INFRA), never a *)
(* verdict about the library.                                              *)
(***************************************************************************)
EXTENDS Integers, Sequences, TLC, Json
CONSTANT TraceFile
Tr == ndJsonDeserialize(TraceFile)
VARIABLES l, cur, nacc
tvars == <<l, cur, nacc>>
E == Tr[l]
Abs(x) == IF x < 0 THEN -x ELSE x
Tol(c) == IF c = 1 THEN 2 ELSE 6
TolExp(c, i) == IF c = 1 THEN 1 ELSE <<3, 3, 4>>[((i - 1) % 3) + 1]
Far(a, b, c) == Len(a) # Len(b) \/ \E i \in 1..Len(a) : Abs(a[i] - b[i]) > Tol(c)
FarExp(a, e, c) == Len(a) # Len(e) \/ \E i \in 1..Len(a) : Abs(a[i] - e[i]) > TolExp(c, i)

RefReason ==
  LET fwd == cur.cfg.dir = "fwd" IN
  IF ~E.ok THEN (IF fwd THEN "independent decoder rejects the stream" ELSE "INFRA reference stream rejected by the independent decoder: " \o E.err)
  ELSE IF E.w # cur.w \/ E.h # cur.h \/ E.c # cur.c \/ E.n # cur.w * cur.h * cur.c
       THEN (IF fwd THEN "independent decoder sees another geometry" ELSE "INFRA reference stream has another geometry")
  ELSE IF Len(E.exp) > 0 /\ ~E.big /\ FarExp(E.pix, E.exp, cur.c) THEN "INFRA the specified image differs from the independent decoder's"
  ELSE IF Len(E.exp) > 0 /\ E.big /\ E.expd > 1 THEN "INFRA the specified image differs from the independent decoder's"
  ELSE "ok"

LibReason ==
  IF ~E.ok THEN "library decoder rejects the stream"
  ELSE IF E.w # cur.w \/ E.h # cur.h \/ E.c # cur.c THEN "geometry differs"
  ELSE IF E.n # cur.w * cur.h * cur.c THEN "not width x height x components samples"
  ELSE IF ~cur.refok THEN "ok"                               \* nothing to compare with (already reported at ref)
  ELSE IF E.big THEN (IF E.maxd < 0 \/ E.maxd > Tol(cur.c) THEN "differs from the independent decoder" ELSE "ok")
  ELSE IF Far(E.out, cur.ref, cur.c) THEN "differs from the independent decoder"
  ELSE IF Len(cur.exp) > 0 /\ FarExp(E.out, cur.exp, cur.c) THEN "differs from the specified image"
  ELSE "ok"

Key(who, r) == "C15/" \o cur.cfg.dir \o "/" \o who \o "/" \o r \o "/" \o cur.cfg.samp \o "/rst" \o ToString(cur.cfg.rst)
Reject(who, r) == PrintT("@@REJECT|" \o ToString(E.scn) \o "|" \o ToString(E.k) \o "|" \o Key(who, r) \o "|" \o ToString(cur.cfg) \o
                         " w=" \o ToString(cur.w) \o " h=" \o ToString(cur.h) \o " err=" \o (IF "err" \in DOMAIN E THEN E.err ELSE ""))

Init == l = 1 /\ nacc = 0 /\ cur = [cfg |-> <<>>, w |-> 0, h |-> 0, c |-> 0, refok |-> FALSE, ref |-> <<>>, exp |-> <<>>]
Step ==
  /\ l <= Len(Tr) /\ l' = l + 1
  /\ CASE E.ev = "case" -> cur' = [cfg |-> E.cfg, w |-> E.w, h |-> E.h, c |-> E.c, refok |-> FALSE, ref |-> <<>>, exp |-> <<>>] /\ UNCHANGED nacc
       [] E.ev = "encfail" -> Reject(cur.cfg.src, "encoder rejects a valid image") /\ UNCHANGED <<cur, nacc>>
       [] E.ev = "ref" ->
            LET r == RefReason IN
            IF r = "ok" THEN cur' = [cur EXCEPT !.refok = TRUE, !.ref = IF E.big THEN <<>> ELSE E.pix, !.exp = IF E.big THEN <<>> ELSE E.exp] /\ UNCHANGED nacc
            ELSE IF SubSeq(r, 1, 5) = "INFRA" THEN PrintT("@@INFO|" \o r \o " scn=" \o ToString(E.scn) \o " " \o ToString(cur.cfg)) /\ UNCHANGED <<cur, nacc>>
            ELSE Reject(cur.cfg.src, r) /\ UNCHANGED <<cur, nacc>>
       [] E.ev = "lib" ->
            LET r == LibReason IN
            IF r = "ok" THEN nacc' = nacc + 1 /\ UNCHANGED cur
            ELSE Reject(E.dec, r) /\ UNCHANGED <<cur, nacc>>
       [] OTHER -> UNCHANGED <<cur, nacc>>
Finish == l = Len(Tr) + 1 /\ PrintT("@@ACCEPT|" \o ToString(nacc)) /\ PrintT("@@DONE|" \o ToString(Len(Tr))) /\ l' = l + 1 /\ UNCHANGED <<cur, nacc>>
TraceSpec == Init /\ [][Step \/ Finish]_tvars
=============================================================================
