------------------------------ MODULE Contract ------------------------------
(***************************************************************************)
(* The abstract codec channel of the round-trip properties (C02-C07, C19): *)
(*   Encode(cfg, frame) -> stream ;  Decode(stream) -> (geometry, frame')  *)
(* with the per-property relation between frame and frame'.                *)
(* Samples are container values (the low P bits of an 8/16-bit word).      *)
(***************************************************************************)
EXTENDS Integers, Sequences, TLC

Abs(x) == IF x < 0 THEN -x ELSE x
MaxVal(p) == 2^p - 1

\* value of a P-bit two's-complement container word
SVal(v, p) == LET m == v % (2^p) IN IF m >= 2^(p-1) THEN m - 2^p ELSE m

GeomReason(cfg, g, wantNear, wantSigned) ==
  IF g.w # cfg.w \/ g.h # cfg.h THEN "dimensions"
  ELSE IF g.c # cfg.c THEN "components"
  ELSE IF g.p # cfg.p THEN "precision"
  ELSE IF wantNear /\ g.near # cfg.near THEN "near"
  ELSE IF wantSigned /\ (g.signed = 1) # cfg.signed THEN "signedness"
  ELSE "ok"

\* identity on sample VALUES (unsigned: low P bits with high bits zero; signed: two's complement)
RECURSIVE FirstDiff(_, _, _)
FirstDiff(a, b, i) == IF i > Len(a) THEN 0 ELSE IF a[i] # b[i] THEN i ELSE FirstDiff(a, b, i + 1)

IdentityReason(src, out) ==
  IF Len(out) # Len(src) THEN "sample count"
  ELSE IF out = src THEN "ok" ELSE "samples differ"

SignedIdentityReason(src, out, p) ==
  IF Len(out) # Len(src) THEN "sample count"
  ELSE IF out = src THEN "ok"
  ELSE IF \A i \in 1..Len(src) : SVal(out[i], p) = SVal(src[i], p) THEN "ok"
  ELSE "samples differ"

NearReason(src, out, near, p) ==
  IF Len(out) # Len(src) THEN "sample count"
  ELSE IF \E i \in 1..Len(src) : out[i] < 0 \/ out[i] > MaxVal(p) THEN "out of range"
  ELSE IF \E i \in 1..Len(src) : Abs(out[i] - src[i]) > near THEN "bound exceeded"
  ELSE "ok"

(***************************************************************************)
(* T.800 A.6.1: number of decomposition levels declared by the COD marker  *)
(* of a codestream whose first bytes are h (marker-segment walk from SOC). *)
(* -1 when h is not a JPEG 2000 main header or COD lies beyond h.          *)
(***************************************************************************)
RECURSIVE CodWalk(_, _)
CodWalk(h, pos) ==     \* pos: 1-based index of a marker (FF xx)
  IF pos + 3 > Len(h) \/ h[pos] # 255 THEN -1
  ELSE IF h[pos + 1] = 82 THEN (IF pos + 9 <= Len(h) THEN h[pos + 9] ELSE -1)
  ELSE IF h[pos + 1] = 144 \/ h[pos + 1] = 147 THEN -1         \* SOT / SOD: main header over
  ELSE CodWalk(h, pos + 2 + h[pos + 2] * 256 + h[pos + 3])
J2kLevels(h) == IF Len(h) >= 4 /\ h[1] = 255 /\ h[2] = 79 THEN CodWalk(h, 3) ELSE -1
=============================================================================
