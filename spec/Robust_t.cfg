SPECIFICATION Spec
CONSTANTS
  TplFile = "TPLFILE"
  Full = TRUE
  BodyStride = 1
CHECK_DEADLOCK FALSE
