------------------------------- MODULE J2kGen -------------------------------
(***************************************************************************)
(* Reverse direction for JPEG 2000: the reference ENCODER of module J2kEnc *)
(* produces tiny reversible codestreams (run under TLC -simulate: every    *)
(* behaviour is one image); each is checked on the way by the strict       *)
(* readers (Markers!WalkJ2k, PacketHeader!ReadPackets) and then decoded by *)
(* the library.                                                            *)
(***************************************************************************)
EXTENDS J2kEnc, Json, Randomization
CONSTANTS MaxDim
VARIABLES phase, cd, img
vars == <<phase, cd, img>>
Init == phase = "pick" /\ cd = <<>> /\ img = <<>>
Pick1 == /\ phase = "pick"
         /\ cd' = [nl |-> RandomElement(0..2), xcb |-> RandomElement({2, 3, 6}), ycb |-> RandomElement({2, 3, 6}), mct |-> RandomElement({TRUE, FALSE}),
                   tw |-> 0, th |-> 0, nc |-> RandomElement({1, 1, 3}), P |-> RandomElement({2, 4, 8, 8}), w |-> RandomElement(1..MaxDim), h |-> RandomElement(1..MaxDim),
                   cls |-> RandomElement({"noise", "smooth", "sparse", "extremes"}), tiling |-> RandomElement({0, 0, 1, 2, 3}),
                   tw0 |-> RandomElement(1..MaxDim), th0 |-> RandomElement(1..MaxDim)]
         /\ phase' = "fill" /\ UNCHANGED img
Pick2 == /\ phase = "fill"
         /\ LET w == IF cd.w < 2^cd.nl THEN 2^cd.nl ELSE cd.w        \* no empty sub-bands (PacketHeader, observation ii)
                h == IF cd.h < 2^cd.nl THEN 2^cd.nl ELSE cd.h
                mx == 2^cd.P - 1
                v(x, y) == CASE cd.cls = "noise" -> RandomElement(0..mx)
                             [] cd.cls = "smooth" -> ((3 * x + 5 * y) + RandomElement(0..1)) % (mx + 1)
                             [] cd.cls = "sparse" -> (IF RandomElement(1..7) = 1 THEN RandomElement(0..mx) ELSE mx \div 2)
                             [] OTHER -> RandomElement({0, mx})
            IN img' = [w |-> w, h |-> h, nc |-> cd.nc, P |-> cd.P, pix |-> [c \in 1..cd.nc |-> [y \in 1..h |-> [x \in 1..w |-> v(x, y)]]]]
         /\ phase' = "emit"
         \* tiling 0: one tile; otherwise random tile sizes (odd origins, partial tiles); every tile keeps at least 2^nl samples per axis
         /\ cd' = LET w == IF cd.w < 2^cd.nl THEN 2^cd.nl ELSE cd.w  h == IF cd.h < 2^cd.nl THEN 2^cd.nl ELSE cd.h IN
                  [cd EXCEPT !.tw = IF cd.tiling = 0 THEN w ELSE cd.tw0, !.th = IF cd.tiling = 0 THEN h ELSE cd.th0]
Stream == Encode(img, cd)
Interleaved == FlatSeq([k \in 1..(img.w * img.h) |-> [c \in 1..img.nc |-> img.pix[c][((k - 1) \div img.w) + 1][((k - 1) % img.w) + 1]]], 1, <<>>)
Emit == /\ phase = "emit"
        /\ PrintT("@@SCN|" \o ToJson([stream |-> Stream, src |-> Interleaved, w |-> img.w, h |-> img.h, c |-> img.nc, p |-> img.P,
                                      levels |-> cd.nl, cbw |-> 2^cd.xcb, cbh |-> 2^cd.ycb, mct |-> cd.mct, cls |-> cd.cls, tw |-> cd.tw, th |-> cd.th]))
        /\ phase' = "done" /\ UNCHANGED <<cd, img>>
Next == Pick1 \/ Pick2 \/ Emit
Spec == Init /\ [][Next]_vars
\* the strict readers accept what the reference encoder writes
SelfWalk == phase = "emit" => LET h == PH!WalkJ2k(Stream) IN h.ok /\ h.w = img.w /\ h.h = img.h /\ h.c = img.nc /\ h.p = img.P /\ h.levels = cd.nl
SelfPackets == phase = "emit" => LET r == PH!ReadPackets(Stream, FALSE) IN r.ok /\ r.why # "skip"
=============================================================================
