------------------------------ MODULE ConcTrace ------------------------------
(***************************************************************************)
(* Trace specification for the dynamic half of C18.  Event "conc": one     *)
(* overlap schedule realised on the registered codecs; for every call the  *)
(* digests of its output frames in each repetition and the digests of the  *)
(* same call run alone.  Event "race": one report of the Go race detector  *)
(* (the writing call site(s)).  Accepted: no race event, every concurrent      *)
(* result equals the solo result, no error.                                *)
(***************************************************************************)
EXTENDS Integers, Sequences, TLC, Json
CONSTANT TraceFile
Tr == ndJsonDeserialize(TraceFile)
VARIABLES l, nacc
tvars == <<l, nacc>>
E == Tr[l]

CallBad(c) == \E k \in 1..Len(c.outs) : c.errs[k] # "" \/ c.outs[k] # c.solo
ParamsChanged == {i \in 1..Len(E.pshared) : E.pshared[i] # E.pinit[i]}
ConcReason == IF ParamsChanged # {} THEN "shared parameters object was modified"
              ELSE IF \E i \in 1..Len(E.calls) : CallBad(E.calls[i]) THEN "result differs from the solo run" ELSE "ok"
FirstBad == LET i == CHOOSE i \in 1..Len(E.calls) : CallBad(E.calls[i]) IN E.calls[i]

Init == l = 1 /\ nacc = 0
Step ==
  /\ l <= Len(Tr) /\ l' = l + 1
  /\ IF E.ev = "conc"
     THEN IF ConcReason = "ok" THEN nacc' = nacc + 1
          ELSE IF ParamsChanged # {}
          THEN PrintT("@@REJECT|" \o ToString(E.scn) \o "|" \o ToString(E.k) \o "|C18/params-modified/codec " \o E.tsorder[CHOOSE i \in ParamsChanged : TRUE]
                      \o "|a call changed the caller's shared parameters object") /\ UNCHANGED nacc
          ELSE PrintT("@@REJECT|" \o ToString(E.scn) \o "|" \o ToString(E.k) \o "|C18/solo-mismatch/codec " \o FirstBad.ts \o "/" \o FirstBad.op \o " " \o FirstBad.mode
                      \o "|" \o ToString(E.ncalls) \o " calls, GOMAXPROCS " \o ToString(E.gomaxprocs) \o " errs=" \o ToString(FirstBad.errs)) /\ UNCHANGED nacc
     ELSE IF E.ev = "race"
     THEN PrintT("@@REJECT|" \o ToString(E.scn) \o "|" \o ToString(E.k) \o "|C18/race/write in " \o E.writers \o "|" \o E.detail) /\ UNCHANGED nacc
     ELSE UNCHANGED nacc
Finish == l = Len(Tr) + 1 /\ PrintT("@@ACCEPT|" \o ToString(nacc)) /\ PrintT("@@DONE|" \o ToString(Len(Tr))) /\ l' = l + 1 /\ UNCHANGED nacc
TraceSpec == Init /\ [][Step \/ Finish]_tvars
=============================================================================
