SPECIFICATION Spec
CONSTANTS
  Alphabet = {0, 1, 255}
  MaxLen = 9
  MaxPkt = 128
INVARIANTS RoundTrip PacketLimit NoNop PendingBounded TypeOK Emit
CHECK_DEADLOCK FALSE
