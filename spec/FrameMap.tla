------------------------------ MODULE FrameMap ------------------------------
(***************************************************************************)
(* Property C10: the DICOM codec contract over call HISTORIES.              *)
(*                                                                         *)
(* Abstract system: a set of long-lived objects (a registered codec, a     *)
(* jpeg2000.Encoder, a jpeg2000.Decoder).  An operation applies Encode or  *)
(* Decode to a SEQUENCE of frames.  The contract says the i-th output is   *)
(*      F[op, frame_i, info, params]                                       *)
(* for one fixed function F - it does not depend on the other frames of    *)
(* the call nor on the object's history.  F is not computable in TLA+; it  *)
(* is *defined* by the first solo execution on a fresh object ("memo"),    *)
(* which the trace specification FrameMapTrace binds.                      *)
(*                                                                         *)
(* This module is the generator: TLC enumerates every history of at most   *)
(* MaxOps operations whose frame sequences have length 1..MaxSeq over      *)
(* Frames (repetitions, permutations and sub-sequences included).          *)
(***************************************************************************)
EXTENDS Integers, Sequences, TLC, Json

CONSTANTS Frames,      \* e.g. {"A","B","C"}: very different contents
          ParamIds,    \* e.g. {"nil","def"}
          MaxOps, MaxSeq

SeqsUpTo(S, n) == UNION {[1..k -> S] : k \in 1..n}
Ops == [op : {"enc", "dec"}, frames : SeqsUpTo(Frames, MaxSeq), params : ParamIds]

VARIABLES hist, F, outs
vars == <<hist, F, outs>>

\* F is chosen once, arbitrarily (an uninterpreted function into tokens); outs is what a
\* contract-abiding object returns for the history so far.
Token(op, f, p) == <<op, f, p>>
Init == hist = <<>> /\ F = [o \in {"enc", "dec"}, f \in Frames, p \in ParamIds |-> Token(o, f, p)] /\ outs = <<>>
Do(o) == /\ Len(hist) < MaxOps
         /\ hist' = Append(hist, o)
         /\ outs' = Append(outs, [i \in 1..Len(o.frames) |-> F[o.op, o.frames[i], o.params]])
         /\ UNCHANGED F
Next == \E o \in Ops : Do(o)
Spec == Init /\ [][Next]_vars

\* the contract, stated on the abstract object
OneToOneInOrder == \A k \in 1..Len(hist) : Len(outs[k]) = Len(hist[k].frames)
HistoryFree == \A j, k \in 1..Len(hist) : \A a \in 1..Len(hist[j].frames), b \in 1..Len(hist[k].frames) :
      (hist[j].op = hist[k].op /\ hist[j].frames[a] = hist[k].frames[b] /\ hist[j].params = hist[k].params)
         => outs[j][a] = outs[k][b]

Emit == Len(hist) > 0 => PrintT("@@SCN|" \o ToJson([ops |-> hist]))
=============================================================================
