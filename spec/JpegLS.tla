------------------------------- MODULE JpegLS -------------------------------
(***************************************************************************)
(* ITU-T T.87 (JPEG-LS) baseline coding as an explicit state machine.      *)
(*                                                                         *)
(* Transcribed from the Recommendation (Annex A coding procedures, Annex C *)
(* marker syntax and default parameters C.2.4.1.1), NOT from the Go code:  *)
(* the specification is the independent implementation properties C14 and  *)
(* (through it) C03/C07 ask for.  Scope: default coding parameters (no LSE)*)
(* one component (ILV = 0) or sample interleave (ILV = 2); NEAR >= 0.      *)
(*                                                                         *)
(* One step of the machine codes one sample (regular mode) or one run      *)
(* segment plus its interruption sample (run mode) of every component of a *)
(* pixel.  The decoder machine (DecStep) and the encoder machine (EncStep) *)
(* share the context-modelling operators, exactly as A.3 - A.7 do.         *)
(***************************************************************************)
EXTENDS Integers, Sequences, TLC

Min(a, b) == IF a < b THEN a ELSE b
Max(a, b) == IF a > b THEN a ELSE b
Abs(a) == IF a < 0 THEN -a ELSE a
Sgn(a) == IF a < 0 THEN -1 ELSE 1

\* run-length code order table (A.2.1)
J == <<0,0,0,0,1,1,1,1,2,2,2,2,3,3,3,3,4,4,5,5,6,6,7,7,8,9,10,11,12,13,14,15>>

CeilLog2(n) == CHOOSE b \in 0..40 : 2^b >= n /\ (b = 0 \/ 2^(b - 1) < n)

(***************************************************************************)
(* Coding parameters (A.2.1, C.2.4.1.1)                                    *)
(***************************************************************************)
\* C.2.4.1.1.1: CLAMP_k(i) returns the lower bound when i is out of range
Clamp(i, j, maxval) == IF i > maxval \/ i < j THEN j ELSE i

Params(w, h, c, p, near, reset, minc, maxc) ==
  LET maxval == 2^p - 1
      range  == (maxval + 2 * near) \div (2 * near + 1) + 1
      qbpp   == CeilLog2(range)
      bpp    == Max(2, CeilLog2(maxval + 1))
      fact   == IF maxval >= 128 THEN (Min(maxval, 4095) + 128) \div 256 ELSE 256 \div (maxval + 1)
      t1 == IF maxval >= 128 THEN Clamp(fact * (3 - 2) + 2 + 3 * near, near + 1, maxval)
            ELSE Clamp(Max(2, 3 \div fact + 3 * near), near + 1, maxval)
      t2 == IF maxval >= 128 THEN Clamp(fact * (7 - 3) + 3 + 5 * near, t1, maxval)
            ELSE Clamp(Max(3, 7 \div fact + 5 * near), t1, maxval)
      t3 == IF maxval >= 128 THEN Clamp(fact * (21 - 4) + 4 + 7 * near, t2, maxval)
            ELSE Clamp(Max(4, 21 \div fact + 7 * near), t2, maxval)
  IN [w |-> w, h |-> h, c |-> c, maxval |-> maxval, near |-> near, range |-> range, qbpp |-> qbpp, bpp |-> bpp,
      limit |-> 2 * (bpp + Max(8, bpp)), t1 |-> t1, t2 |-> t2, t3 |-> t3, reset |-> reset,
      ainit |-> Max(2, (range + 32) \div 64), minc |-> minc, maxc |-> maxc]

DefaultParams(w, h, c, p, near) == Params(w, h, c, p, near, 64, -128, 127)

(***************************************************************************)
(* Context modelling (A.3, A.4)                                            *)
(***************************************************************************)
\* A.3.3 gradient quantisation
QG(pr, d) == IF d <= -pr.t3 THEN -4 ELSE IF d <= -pr.t2 THEN -3 ELSE IF d <= -pr.t1 THEN -2 ELSE IF d < -pr.near THEN -1
             ELSE IF d <= pr.near THEN 0 ELSE IF d < pr.t1 THEN 1 ELSE IF d < pr.t2 THEN 2 ELSE IF d < pr.t3 THEN 3 ELSE 4

\* A.4.1 edge-detecting (MED) predictor
Med(a, b, c) == IF c >= Max(a, b) THEN Min(a, b) ELSE IF c <= Min(a, b) THEN Max(a, b) ELSE a + b - c

ClampS(pr, v) == IF v < 0 THEN 0 ELSE IF v > pr.maxval THEN pr.maxval ELSE v

\* A.4.4 error quantisation for near-lossless coding (truncation towards zero of the magnitude)
Quant(pr, e) == IF e > 0 THEN (e + pr.near) \div (2 * pr.near + 1) ELSE -((pr.near - e) \div (2 * pr.near + 1))

\* A.4.5 modulo reduction of the error into (-RANGE/2 .. RANGE/2]
ModRange(pr, e) == LET e1 == IF e < 0 THEN e + pr.range ELSE e IN IF e1 >= (pr.range + 1) \div 2 THEN e1 - pr.range ELSE e1

\* A.5.1 Golomb parameter: smallest k with N * 2^k >= A
KOf(n, a) == CHOOSE k \in 0..40 : n * (2^k) >= a /\ (k = 0 \/ n * (2^(k - 1)) < a)

\* A.6.1/A.6.2 update of A, B, C, N for a regular-mode context (errval after modulo reduction)
CtxUpdate(pr, A, B, C, N, err) ==
  LET B1 == B + err * (2 * pr.near + 1)
      A1 == A + Abs(err)
      rs == N = pr.reset
      A2 == IF rs THEN A1 \div 2 ELSE A1
      B2 == IF rs THEN (IF B1 >= 0 THEN B1 \div 2 ELSE -((1 - B1) \div 2)) ELSE B1   \* arithmetic shift right
      N2 == (IF rs THEN N \div 2 ELSE N) + 1
      B3 == IF B2 <= -N2 THEN (IF B2 + N2 <= -N2 THEN -N2 + 1 ELSE B2 + N2)
            ELSE IF B2 > 0 THEN (IF B2 - N2 > 0 THEN 0 ELSE B2 - N2) ELSE B2
      C3 == IF B2 <= -N2 THEN (IF C > pr.minc THEN C - 1 ELSE C)
            ELSE IF B2 > 0 THEN (IF C < pr.maxc THEN C + 1 ELSE C) ELSE C
  IN [A |-> A2, B |-> B3, C |-> C3, N |-> N2]

\* reconstructed value from the prediction and the (dequantised, sign-corrected) error (A.4.5 / F.1 item 11)
Reconstruct(pr, px, signedErrTimesStep) ==
  LET v0 == px + signedErrTimesStep
      v1 == IF v0 < -pr.near THEN v0 + pr.range * (2 * pr.near + 1)
            ELSE IF v0 > pr.maxval + pr.near THEN v0 - pr.range * (2 * pr.near + 1) ELSE v0
  IN ClampS(pr, v1)

(***************************************************************************)
(* Coder state.  Lines are indexed 1..W per component; prev0[c] is the     *)
(* value used as Rc at the first column (the Ra of the previous line).     *)
(***************************************************************************)
InitCtx(pr) ==
  [A |-> [q \in 0..366 |-> pr.ainit], B |-> [q \in 0..364 |-> 0], C |-> [q \in 0..364 |-> 0],
   N |-> [q \in 0..366 |-> 1], Nn |-> [q \in 365..366 |-> 0]]

InitState(pr) ==
  [x |-> 1, y |-> 1, ctx |-> InitCtx(pr), ri |-> 0,
   prev |-> [c \in 1..pr.c |-> [i \in 1..pr.w |-> 0]],      \* reconstructed previous line
   cur  |-> [c \in 1..pr.c |-> [i \in 1..pr.w |-> 0]],      \* reconstructed current line (valid for columns < x)
   prevFirst |-> [c \in 1..pr.c |-> 0],                     \* first sample of the line before the previous one
   pos |-> 1,                                               \* next bit (decoder)
   bits |-> <<>>,                                           \* emitted bits (encoder)
   out |-> <<>>]                                            \* reconstructed image so far, pixel interleaved

\* causal template of sample (x, y) of component c (A.2.1 / A.2.2 edge rules)
Rb(s, c, xx) == s.prev[c][xx]
Ra(s, c, xx) == IF xx > 1 THEN s.cur[c][xx - 1] ELSE s.prev[c][1]
Rc(s, c, xx) == IF xx > 1 THEN s.prev[c][xx - 1] ELSE s.prevFirst[c]
Rd(pr, s, c, xx) == IF xx < pr.w THEN s.prev[c][xx + 1] ELSE s.prev[c][xx]

Done(pr, s) == s.y > pr.h

\* a finished line appended to the output image (pixel interleaved); used by the trace spec
LineOut(pr, line) == LET n == pr.w * pr.c IN [i \in 1..n |-> line[((i - 1) % pr.c) + 1][((i - 1) \div pr.c) + 1]]

\* advance to column xx (1-based next column); at the line end rotate the line buffers
Advance(pr, s, xx) ==
  IF xx > pr.w
  THEN [s EXCEPT !.x = 1, !.y = s.y + 1, !.prev = s.cur,
                 !.prevFirst = [c \in 1..pr.c |-> s.prev[c][1]],
                 !.out = s.out \o LineOut(pr, s.cur)]
  ELSE [s EXCEPT !.x = xx]

(***************************************************************************)
(* Bit sources / sinks                                                      *)
(***************************************************************************)
Bits(v, n) == [i \in 1..n |-> (v \div 2^(n - i)) % 2]
Zeros(n) == [i \in 1..n |-> 0]

RECURSIVE BitsVal(_, _, _, _)
BitsVal(bs, i, n, acc) == IF n = 0 THEN acc ELSE BitsVal(bs, i + 1, n - 1, 2 * acc + bs[i])

\* A.5.3 limited-length Golomb code LG(k, glimit) of the mapped value m
LG(pr, k, glimit, m) ==
  LET u == m \div 2^k IN
  IF u < glimit - pr.qbpp - 1 THEN Zeros(u) \o <<1>> \o Bits(m % 2^k, k)
  ELSE Zeros(glimit - pr.qbpp - 1) \o <<1>> \o Bits(m - 1, pr.qbpp)

\* decoder side: number of leading zeros starting at position i (bounded by the code limit)
RECURSIVE ZeroRun(_, _, _, _)
ZeroRun(bs, i, n, lim) == IF n >= lim \/ i > Len(bs) \/ bs[i] = 1 THEN n ELSE ZeroRun(bs, i + 1, n + 1, lim)

\* returns <<mapped value, next position, ok>>
DecodeLG(pr, bs, pos, k, glimit) ==
  LET esc == glimit - pr.qbpp - 1
      z == ZeroRun(bs, pos, 0, esc)
      p1 == pos + z + 1                         \* after the terminating 1 bit
  IN IF pos + z > Len(bs) THEN <<0, pos, FALSE>>
     ELSE IF z < esc
          THEN IF p1 + k - 1 > Len(bs) THEN <<0, pos, FALSE>>
               ELSE <<z * 2^k + BitsVal(bs, p1, k, 0), p1 + k, TRUE>>
          ELSE IF p1 + pr.qbpp - 1 > Len(bs) THEN <<0, pos, FALSE>>
               ELSE <<BitsVal(bs, p1, pr.qbpp, 0) + 1, p1 + pr.qbpp, TRUE>>

(***************************************************************************)
(* Regular mode (A.4 - A.6): one sample of component c at column s.x        *)
(***************************************************************************)
RegCtx(pr, s, c) ==
  LET a == Ra(s, c, s.x)  b == Rb(s, c, s.x)  cc == Rc(s, c, s.x)  d == Rd(pr, s, c, s.x)
      q1 == QG(pr, d - b)  q2 == QG(pr, b - cc)  q3 == QG(pr, cc - a)
      id == 81 * q1 + 9 * q2 + q3
  IN [q1 |-> q1, q2 |-> q2, q3 |-> q3, sign |-> IF id < 0 THEN -1 ELSE 1, Q |-> Abs(id),
      px0 |-> Med(a, b, cc)]

\* error mapping A.5.2 (the special mapping applies to lossless coding only)
MapErr(pr, k, B, N, err) ==
  IF pr.near = 0 /\ k = 0 /\ 2 * B <= -N
  THEN (IF err >= 0 THEN 2 * err + 1 ELSE -2 * (err + 1))
  ELSE (IF err >= 0 THEN 2 * err ELSE -2 * err - 1)
UnmapErr(pr, k, B, N, m) ==
  IF pr.near = 0 /\ k = 0 /\ 2 * B <= -N
  THEN (IF m % 2 = 1 THEN (m - 1) \div 2 ELSE -(m \div 2) - 1)
  ELSE (IF m % 2 = 0 THEN m \div 2 ELSE -((m + 1) \div 2))

\* shared tail: apply errval (already modulo-reduced) to context Q and the line buffer
RegApply(pr, s, c, g, err) ==
  LET Q == g.Q
      px == ClampS(pr, g.px0 + g.sign * s.ctx.C[Q])
      rx == Reconstruct(pr, px, g.sign * err * (2 * pr.near + 1))
      u == CtxUpdate(pr, s.ctx.A[Q], s.ctx.B[Q], s.ctx.C[Q], s.ctx.N[Q], err)
  IN [s EXCEPT !.cur[c][s.x] = rx,
               !.ctx.A[Q] = u.A, !.ctx.B[Q] = u.B, !.ctx.C[Q] = u.C, !.ctx.N[Q] = u.N]

EncRegular(pr, s, c, ix) ==
  LET g == RegCtx(pr, s, c)
      Q == g.Q
      px == ClampS(pr, g.px0 + g.sign * s.ctx.C[Q])
      err == ModRange(pr, Quant(pr, g.sign * (ix - px)))
      k == KOf(s.ctx.N[Q], s.ctx.A[Q])
      m == MapErr(pr, k, s.ctx.B[Q], s.ctx.N[Q], err)
      s1 == RegApply(pr, s, c, g, err)
  IN [s1 EXCEPT !.bits = s.bits \o LG(pr, k, pr.limit, m)]

\* returns the new state, or the state with pos = -1 on a read past the end
DecRegular(pr, bs, s, c) ==
  LET g == RegCtx(pr, s, c)
      Q == g.Q
      k == KOf(s.ctx.N[Q], s.ctx.A[Q])
      r == DecodeLG(pr, bs, s.pos, k, pr.limit)
      err == UnmapErr(pr, k, s.ctx.B[Q], s.ctx.N[Q], r[1])
      s1 == RegApply(pr, s, c, g, err)
  IN IF r[3] THEN [s1 EXCEPT !.pos = r[2]] ELSE [s EXCEPT !.pos = -1]

(***************************************************************************)
(* Run mode (A.7)                                                           *)
(***************************************************************************)
RunModeHere(pr, s) == \A c \in 1..pr.c : LET g == RegCtx(pr, s, c) IN g.q1 = 0 /\ g.q2 = 0 /\ g.q3 = 0

\* encoder: length of the run starting at column s.x (all components within NEAR of their Ra)
RECURSIVE RunLen(_, _, _, _, _)
RunLen(pr, s, img, rv, n) ==
  IF s.x + n <= pr.w /\ \A c \in 1..pr.c : Abs(img[((s.y - 1) * pr.w + (s.x + n - 1)) * pr.c + c] - rv[c]) <= pr.near
  THEN RunLen(pr, s, img, rv, n + 1) ELSE n

\* A.7.1.2: emit '1' for every completed segment of length 2^J[RUNindex]
RECURSIVE RunSegs(_, _, _)
RunSegs(cnt, ri, acc) ==
  IF cnt >= 2^J[ri + 1] THEN RunSegs(cnt - 2^J[ri + 1], IF ri < 31 THEN ri + 1 ELSE ri, Append(acc, 1))
  ELSE <<cnt, ri, acc>>

FillRun(pr, s, rv, n) ==
  [s EXCEPT !.cur = [c \in 1..pr.c |-> [i \in 1..pr.w |-> IF i >= s.x /\ i < s.x + n THEN rv[c] ELSE s.cur[c][i]]]]

\* A.7.2 run interruption sample of component c at column xx; ritypeAll: FALSE for sample interleave
\* (every component is coded with RItype = 0 and context 365), otherwise RItype from |Ra - Rb| <= NEAR
RIParams(pr, s, c, xx, single) ==
  LET a == Ra(s, c, xx)  b == Rb(s, c, xx)
      rit == IF single /\ Abs(a - b) <= pr.near THEN 1 ELSE 0
      px == IF rit = 1 THEN a ELSE b
      sign == IF rit = 0 /\ a > b THEN -1 ELSE 1
      Q == 365 + rit
      temp == IF rit = 0 THEN s.ctx.A[365] ELSE s.ctx.A[366] + s.ctx.N[366] \div 2
      k == KOf(s.ctx.N[Q], temp)
  IN [rit |-> rit, px |-> px, sign |-> sign, Q |-> Q, k |-> k]

RIMap(s, ri, err) ==
  LET Q == ri.Q IN
  IF ri.k = 0 /\ err > 0 /\ 2 * s.ctx.Nn[Q] < s.ctx.N[Q] THEN 1
  ELSE IF err < 0 /\ 2 * s.ctx.Nn[Q] >= s.ctx.N[Q] THEN 1
  ELSE IF err < 0 /\ ri.k # 0 THEN 1 ELSE 0

RIApply(pr, s, c, xx, ri, err, em) ==
  LET Q == ri.Q
      rx == Reconstruct(pr, ri.px, ri.sign * err * (2 * pr.near + 1))
      Nn1 == IF err < 0 THEN s.ctx.Nn[Q] + 1 ELSE s.ctx.Nn[Q]
      A1 == s.ctx.A[Q] + (em + 1 - ri.rit) \div 2
      rs == s.ctx.N[Q] = pr.reset
  IN [s EXCEPT !.cur[c][xx] = rx,
               !.ctx.A[Q] = IF rs THEN A1 \div 2 ELSE A1,
               !.ctx.N[Q] = (IF rs THEN s.ctx.N[Q] \div 2 ELSE s.ctx.N[Q]) + 1,
               !.ctx.Nn[Q] = IF rs THEN Nn1 \div 2 ELSE Nn1]

RECURSIVE EncRI(_, _, _, _, _, _)
EncRI(pr, s, img, xx, c, glimit) ==
  IF c > pr.c THEN s
  ELSE LET ri == RIParams(pr, s, c, xx, pr.c = 1)
           ix == img[((s.y - 1) * pr.w + (xx - 1)) * pr.c + c]
           err == ModRange(pr, Quant(pr, ri.sign * (ix - ri.px)))
           map == RIMap(s, ri, err)
           em == 2 * Abs(err) - ri.rit - map
           s1 == RIApply(pr, s, c, xx, ri, err, em)
       IN EncRI(pr, [s1 EXCEPT !.bits = s.bits \o LG(pr, ri.k, glimit, em)], img, xx, c + 1, glimit)

RECURSIVE DecRI(_, _, _, _, _, _)
DecRI(pr, bs, s, xx, c, glimit) ==
  IF c > pr.c \/ s.pos < 0 THEN s
  ELSE LET ri == RIParams(pr, s, c, xx, pr.c = 1)
           r == DecodeLG(pr, bs, s.pos, ri.k, glimit)
           em == r[1]
           Q == ri.Q
           \* A.7.2.2 inverse of the run-interruption error mapping
           t == em + ri.rit
           map0 == t % 2                                       \* parity of EMErrval + RItype = map
           mag == (t + map0) \div 2
           errNonNeg == (IF ri.k = 0 /\ 2 * s.ctx.Nn[Q] < s.ctx.N[Q] THEN map0 = 1 ELSE map0 = 0)
           err == IF mag = 0 THEN 0 ELSE IF errNonNeg THEN mag ELSE -mag
           s1 == RIApply(pr, s, c, xx, ri, err, em)
       IN IF r[3] THEN DecRI(pr, bs, [s1 EXCEPT !.pos = r[2]], xx, c + 1, glimit) ELSE [s EXCEPT !.pos = -1]

EncRun(pr, s, img) ==
  LET rv == [c \in 1..pr.c |-> Ra(s, c, s.x)]
      n == RunLen(pr, s, img, rv, 0)
      rb == RunSegs(n, s.ri, <<>>)
      eol == s.x + n > pr.w
      s1 == FillRun(pr, s, rv, n)
  IN IF eol
     THEN Advance(pr, [s1 EXCEPT !.ri = rb[2], !.bits = s.bits \o rb[3] \o (IF rb[1] > 0 THEN <<1>> ELSE <<>>)], s.x + n)
     ELSE LET ri1 == rb[2]
              s2 == [s1 EXCEPT !.bits = s.bits \o rb[3] \o <<0>> \o Bits(rb[1], J[ri1 + 1])]
              s3 == EncRI(pr, s2, img, s.x + n, 1, pr.limit - J[ri1 + 1] - 1)
          IN Advance(pr, [s3 EXCEPT !.ri = IF ri1 > 0 THEN ri1 - 1 ELSE 0], s.x + n + 1)

\* decoder: A.7.1.2 inverse - read '1' bits, each standing for a full segment (clipped at the line end)
RECURSIVE DecRunLen(_, _, _, _, _, _)
DecRunLen(pr, bs, pos, ri, n, room) ==     \* returns <<run length, next pos, RUNindex, interrupted?>>
  IF pos > Len(bs) THEN <<n, -1, ri, FALSE>>
  ELSE IF bs[pos] = 1
       THEN LET seg == 2^J[ri + 1]
                take == Min(seg, room - n)
                ri1 == IF take = seg /\ ri < 31 THEN ri + 1 ELSE ri
            IN IF n + take = room THEN <<room, pos + 1, ri1, FALSE>>
               ELSE DecRunLen(pr, bs, pos + 1, ri1, n + take, room)
       ELSE IF pos + J[ri + 1] > Len(bs) THEN <<n, -1, ri, FALSE>>
            ELSE <<n + BitsVal(bs, pos + 1, J[ri + 1], 0), pos + 1 + J[ri + 1], ri, TRUE>>

DecRun(pr, bs, s) ==
  LET rv == [c \in 1..pr.c |-> Ra(s, c, s.x)]
      room == pr.w - s.x + 1
      r == DecRunLen(pr, bs, s.pos, s.ri, 0, room)
      n == r[1]
  IN IF r[2] < 0 \/ n > room \/ (r[4] /\ n >= room) THEN [s EXCEPT !.pos = -1]
     ELSE LET s1 == FillRun(pr, s, rv, n) IN
          IF ~r[4] THEN Advance(pr, [s1 EXCEPT !.pos = r[2], !.ri = r[3]], s.x + n)
          ELSE LET s2 == DecRI(pr, bs, [s1 EXCEPT !.pos = r[2]], s.x + n, 1, pr.limit - J[r[3] + 1] - 1)
               IN IF s2.pos < 0 THEN s2
                  ELSE Advance(pr, [s2 EXCEPT !.ri = IF r[3] > 0 THEN r[3] - 1 ELSE 0], s.x + n + 1)

(***************************************************************************)
(* One step of the machines                                                 *)
(***************************************************************************)
RECURSIVE EncRegAll(_, _, _, _)
EncRegAll(pr, s, img, c) ==
  IF c > pr.c THEN s ELSE EncRegAll(pr, EncRegular(pr, s, c, img[((s.y - 1) * pr.w + (s.x - 1)) * pr.c + c]), img, c + 1)
RECURSIVE DecRegAll(_, _, _, _)
DecRegAll(pr, bs, s, c) ==
  IF c > pr.c \/ s.pos < 0 THEN s ELSE DecRegAll(pr, bs, DecRegular(pr, bs, s, c), c + 1)

EncStep(pr, s, img) == IF RunModeHere(pr, s) THEN EncRun(pr, s, img) ELSE Advance(pr, EncRegAll(pr, s, img, 1), s.x + 1)
DecStep(pr, bs, s) ==
  IF RunModeHere(pr, s) THEN DecRun(pr, bs, s)
  ELSE LET s1 == DecRegAll(pr, bs, s, 1) IN IF s1.pos < 0 THEN s1 ELSE Advance(pr, s1, s.x + 1)

(***************************************************************************)
(* Bit stream <-> bytes (A.1 / C.? marker-stuffing: after an FF byte the    *)
(* next byte carries only 7 bits, its MSB is 0)                             *)
(***************************************************************************)
RECURSIVE Pack(_, _, _, _)
Pack(bs, i, prevFF, acc) ==
  LET n == IF prevFF THEN 7 ELSE 8 IN
  IF i > Len(bs) THEN (IF prevFF THEN Append(acc, 0) ELSE acc)
  ELSE LET val == BitsVal([j \in 1..n |-> IF i + j - 1 <= Len(bs) THEN bs[i + j - 1] ELSE 0], 1, n, 0)
       IN Pack(bs, i + n, val = 255, Append(acc, val))

\* scan bytes -> bit sequence; stops at a marker (FF followed by a byte >= 0x80) or at the end
RECURSIVE Unpack(_, _, _, _)
Unpack(by, i, prevFF, acc) ==
  IF i > Len(by) THEN acc
  ELSE IF prevFF /\ by[i] >= 128 THEN SubSeq(acc, 1, Len(acc) - 8)       \* the FF belonged to a marker
  ELSE Unpack(by, i + 1, by[i] = 255, acc \o (IF prevFF THEN Bits(by[i], 7) ELSE Bits(by[i], 8)))

(***************************************************************************)
(* Marker syntax (Annex C): SOI, SOF55, SOS [, other segments], scan, EOI   *)
(***************************************************************************)
U16(s, i) == s[i] * 256 + s[i + 1]

\* walk marker segments from position i (1-based, at an FF xx pair) until SOS; collect SOF55 / SOS fields
RECURSIVE Walk(_, _, _)
Walk(s, i, acc) ==
  IF i + 1 > Len(s) \/ s[i] # 255 THEN [acc EXCEPT !.ok = FALSE, !.why = "marker expected"]
  ELSE LET m == s[i + 1] IN
    IF m = 216 THEN Walk(s, i + 2, acc)                                        \* SOI
    ELSE IF i + 3 > Len(s) THEN [acc EXCEPT !.ok = FALSE, !.why = "truncated segment"]
    ELSE LET L == U16(s, i + 2) IN
      IF i + 1 + L > Len(s) \/ L < 2 THEN [acc EXCEPT !.ok = FALSE, !.why = "segment length"]
      ELSE IF m = 247                                                         \* SOF55
           THEN Walk(s, i + 2 + L, [acc EXCEPT !.p = s[i + 4], !.h = U16(s, i + 5), !.w = U16(s, i + 7), !.c = s[i + 9],
                                              !.sofok = (L = 8 + 3 * s[i + 9])])
      ELSE IF m = 218                                                         \* SOS
           THEN LET ns == s[i + 4] IN
                [acc EXCEPT !.ns = ns, !.near = s[i + 5 + 2 * ns], !.ilv = s[i + 6 + 2 * ns], !.scan = i + 2 + L,
                            !.sosok = (L = 6 + 2 * ns)]
      ELSE IF m = 248 THEN Walk(s, i + 2 + L, [acc EXCEPT !.lse = TRUE])       \* LSE: preset parameters
      ELSE Walk(s, i + 2 + L, acc)

Header(s) ==
  LET z == [ok |-> TRUE, why |-> "", p |-> 0, h |-> 0, w |-> 0, c |-> 0, ns |-> 0, near |-> 0, ilv |-> 0, scan |-> 0,
            sofok |-> FALSE, sosok |-> FALSE, lse |-> FALSE]
  IN IF Len(s) < 4 \/ s[1] # 255 \/ s[2] # 216 THEN [z EXCEPT !.ok = FALSE, !.why = "no SOI"] ELSE Walk(s, 1, z)

(***************************************************************************)
(* T.87 Annex H.3 example (4x4, 8 bit, lossless): image and its published   *)
(* 57-byte interchange stream.                                              *)
(***************************************************************************)
H3Image == <<0, 0, 90, 74, 68, 50, 43, 205, 64, 145, 145, 145, 100, 145, 145, 145>>
H3Stream == <<255, 216, 255, 247, 0, 11, 8, 0, 4, 0, 4, 1, 1, 17, 0, 255, 218, 0, 8, 1, 1, 0, 0, 0, 0,
              192, 0, 0, 108, 128, 32, 142, 1, 192, 0, 0, 87, 64, 0, 0, 110, 230, 0, 0, 1, 188, 24, 0, 0, 5, 216, 0, 0, 145, 96,
              255, 217>>
=============================================================================
