---------------------------- MODULE MarkersTrace ----------------------------
(***************************************************************************)
(* Trace specification for C16: every frame returned by an encoder is one  *)
(* well-formed, self-describing codestream whose header declares exactly   *)
(* what the encoder was asked for.  Event "frame": api, cfg, stream, err.  *)
(***************************************************************************)
EXTENDS PacketHeader, Json
CONSTANT TraceFile
Tr == ndJsonDeserialize(TraceFile)
VARIABLES l, nacc, pk, rev
tvars == <<l, nacc, pk, rev>>
E == Tr[l]
C == E.cfg

JpegReason(h) ==
  IF h.w # C.w \/ h.h # C.h \/ h.c # C.c THEN "header declares other dimensions or component count"
  ELSE IF C.api = "baseline" /\ (h.kind # 192 \/ h.p # 8) THEN "baseline frame header"
  ELSE IF C.api = "extended" /\ ((C.p = 8 /\ (h.kind \notin {192, 193} \/ h.p # 8)) \/ (C.p = 12 /\ (h.kind # 193 \/ h.p # 12))) THEN "extended frame header"
  ELSE IF C.api \in {"jpegll", "sv1"} /\ (h.kind # 195 \/ h.p # C.p \/ h.se # 0 \/ h.ahal # 0) THEN "lossless frame/scan header"
  ELSE IF C.api = "jpegll" /\ C.pred >= 1 /\ h.ss # C.pred THEN "predictor not declared in Ss"
  ELSE IF C.api = "jpegll" /\ C.pred = 0 /\ h.ss \notin 1..7 THEN "predictor not declared in Ss"
  ELSE IF C.api = "sv1" /\ h.ss # 1 THEN "SV1 must declare predictor 1"
  ELSE IF C.api \in {"jls", "jlsnear"} /\ (h.kind # 247 \/ h.p # C.p) THEN "JPEG-LS frame header"
  ELSE IF C.api \in {"jls", "jlsnear"} /\ h.ss # C.near THEN "NEAR not declared in SOS"
  ELSE IF C.api \in {"jls", "jlsnear"} /\ h.se # (IF C.c = 1 THEN 0 ELSE 2) THEN "ILV not declared in SOS"
  ELSE IF h.ns # C.c THEN "scan does not cover all components"
  ELSE IF \E c \in 1..h.c : h.hv[c] # 17 THEN "sampling factors are not 1x1"
  ELSE "ok"

J2kReason(h) ==
  IF h.w # C.w \/ h.h # C.h \/ h.c # C.c THEN "SIZ declares other dimensions or component count"
  ELSE IF h.p # C.p \/ h.signed # C.signed \/ ~h.samedepth THEN "SIZ declares other precision or signedness"
  ELSE IF h.reversible # C.lossless THEN "COD declares the other wavelet transform"
  ELSE IF h.levels # C.levels THEN "COD declares other decomposition levels"
  ELSE IF h.layers # C.layers \/ h.prog # C.prog THEN "COD declares other layers or progression"
  ELSE IF h.cbw # C.cbw \/ h.cbh # C.cbh THEN "COD declares other code-block size"
  ELSE IF h.mct # (IF C.mct /\ C.c = 3 THEN 1 ELSE 0) THEN "COD declares the other colour-transform setting"
  ELSE IF h.tw # (IF C.tw = 0 THEN C.w ELSE C.tw) \/ h.th # (IF C.th = 0 THEN C.h ELSE C.th) THEN "SIZ declares other tile size"
  ELSE IF h.cap # C.ht THEN "CAP marker presence does not match HT"
  ELSE "ok"

\* The strict packet reader (PacketHeader) is used to NAME one defect the property lists - a packet header whose last
\* byte is 0xFF must be followed by a stuffed byte (B.10.1) -: the stream fails the strict reading and passes the reading
\* of the defective writer in which some packet header does end in 0xFF, on a stream whose packet structure is plain
\* (one tile, default precincts, no empty sub-band).  Any other disagreement between the reader and the library about the packet structure
\* (user-defined precincts, tile-local geometry, empty sub-bands: DESIGN.md 8) is counted, not judged.
PkClass(s) ==
  LET a == ReadPackets(s, FALSE) IN
  IF a.ok THEN (IF a.why = "skip" THEN "skipped" ELSE "parsed")
  ELSE IF PlainStructure(s) /\ (LET b == ReadPackets(s, TRUE) IN b.ok /\ b.nff > 0) THEN "stuffing" ELSE "unparsed"
Reason ==
  IF E.err # "" THEN "ok"                                  \* refusals are C17's business, not C16's
  ELSE IF C.api = "j2k" THEN (LET h == WalkJ2k(E.stream) IN IF ~h.ok THEN "malformed: " \o h.why
                              ELSE LET r == J2kReason(h) IN IF r # "ok" THEN r ELSE "pk:" \o PkClass(E.stream))
  ELSE LET h == WalkJpeg(E.stream) IN IF ~h.ok THEN "malformed: " \o h.why ELSE JpegReason(h)

Init == l = 1 /\ nacc = 0 /\ pk = [parsed |-> 0, skipped |-> 0, unparsed |-> 0] /\ rev = [agree |-> 0, differ |-> 0, tagree |-> 0, tdiffer |-> 0]
Step ==
  /\ l <= Len(Tr) /\ l' = l + 1
  /\ IF E.ev = "j2krev"
     THEN \* a codestream written by the reference encoder J2kEnc and decoded by the library: informational (DESIGN.md 8)
          LET ok == E.err = "" /\ E.out = E.src /\ E.gw = C.w /\ E.gh = C.h /\ E.gc = C.c /\ E.gp = C.p
              tiled == C.tw < C.w \/ C.th < C.h IN
          /\ rev' = [rev EXCEPT !.agree = @ + (IF ok /\ ~tiled THEN 1 ELSE 0), !.differ = @ + (IF ~ok /\ ~tiled THEN 1 ELSE 0),
                                 !.tagree = @ + (IF ok /\ tiled THEN 1 ELSE 0), !.tdiffer = @ + (IF ~ok /\ tiled THEN 1 ELSE 0)]
          /\ IF ok \/ tiled THEN TRUE ELSE PrintT("@@INFO|library decoder does not recover an image coded by the reference encoder: " \o ToString(C) \o " err=" \o E.err)
     ELSE UNCHANGED rev
  /\ IF E.ev # "frame" THEN UNCHANGED <<nacc, pk>>
     ELSE LET r == Reason IN
          IF r = "ok" THEN nacc' = nacc + (IF E.err = "" THEN 1 ELSE 0) /\ UNCHANGED pk
          ELSE IF r \in {"pk:parsed", "pk:skipped", "pk:unparsed"}
          THEN /\ nacc' = nacc + 1
               /\ pk' = [pk EXCEPT !.parsed = @ + (IF r = "pk:parsed" THEN 1 ELSE 0), !.skipped = @ + (IF r = "pk:skipped" THEN 1 ELSE 0),
                                   !.unparsed = @ + (IF r = "pk:unparsed" THEN 1 ELSE 0)]
          ELSE LET why == IF r = "pk:stuffing" THEN "packet header ending in 0xFF is not followed by the stuffed byte" ELSE r IN
               PrintT("@@REJECT|" \o ToString(E.scn) \o "|" \o ToString(E.k) \o "|C16/wellformed/" \o C.api \o "/" \o why \o "|" \o ToString(C)) /\ UNCHANGED <<nacc, pk>>
Finish == /\ l = Len(Tr) + 1 /\ PrintT("@@ACCEPT|" \o ToString(nacc)) /\ PrintT("@@DONE|" \o ToString(Len(Tr)))
          /\ PrintT("@@INFO|pk parsed=" \o ToString(pk.parsed) \o " skipped=" \o ToString(pk.skipped) \o " unparsed=" \o ToString(pk.unparsed)
                    \o " ragree=" \o ToString(rev.agree) \o " rdiffer=" \o ToString(rev.differ)
                    \o " tagree=" \o ToString(rev.tagree) \o " tdiffer=" \o ToString(rev.tdiffer))
          /\ l' = l + 1 /\ UNCHANGED <<nacc, pk, rev>>
TraceSpec == Init /\ [][Step \/ Finish]_tvars
=============================================================================
