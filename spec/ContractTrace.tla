---------------------------- MODULE ContractTrace ----------------------------
(***************************************************************************)
(* Trace specification shared by the round-trip properties.  reset events  *)
(* carry the property id and the relation: "identity" | "sidentity" (value *)
(* identity for two's-complement samples) | "near".                        *)
(* Classification keys are computed here from logged facts only.           *)
(***************************************************************************)
EXTENDS Contract, TileGrid, Json
CONSTANT TraceFile
Tr == ndJsonDeserialize(TraceFile)
VARIABLES l, mode, cur, nacc
tvars == <<l, mode, cur, nacc>>
E == Tr[l]

\* discriminators: predicates over the configuration that name a root-caused defect class
Disc(prop, cfg) ==
  CASE prop = "C04" /\ cfg.signed /\ cfg.p < 8 -> "signed-P<8"
    [] prop = "C06" -> IF cfg.hasmin = 1 /\ (cfg.nl = 0 \/ cfg.info.rows = 1 \/ cfg.info.cols = 1)
                       THEN "min-sample-in-untransformed-band" ELSE "-"
    [] prop = "C19" -> IF OriginIndependent(cfg.w, cfg.h, cfg.tw, cfg.th, cfg.levels, cfg.cbw, cfg.cbh)
                       THEN "origin-independent" ELSE "tile-origin-ignored"
    [] OTHER -> "-"

\* configuration record of a codec-level encode event (the source bytes stay out of it)
CCfg == [ts |-> E.ts, info |-> E.info, params |-> E.params, cls |-> E.cls, nin |-> E.nin, srcsha |-> E.srcsha,
         hasmin |-> E.hasmin, nl |-> J2kLevels(E.hdr)]

EncReason == IF E.err # "" THEN "encode error" ELSE "ok"
DecReason ==
  IF E.err # "" THEN "decode error"
  ELSE LET g == GeomReason(cur.cfg, E.geom, cur.rel = "near", cur.rel \in {"identity", "sidentity"} /\ cur.cfg.api = "j2k") IN
       IF g # "ok" THEN "geometry " \o g
       ELSE CASE cur.rel = "identity"  -> IdentityReason(cur.src, E.out)
              [] cur.rel = "sidentity" -> SignedIdentityReason(cur.src, E.out, cur.cfg.p)
              [] cur.rel = "near"      -> NearReason(cur.src, E.out, cur.cfg.near, cur.cfg.p)
              [] OTHER -> "ok"

\* codec-level events (registered codec through PixelData): byte identity of every frame
CEncReason == IF E.err # "" THEN "encode error"
              ELSE IF E.nout # E.nin THEN "encoded frame count" ELSE "ok"
CDecReason == IF E.err # "" THEN "decode error"
              ELSE IF E.nout # cur.cfg.nin THEN "decoded frame count"
              ELSE IF E.out # cur.src \/ E.outsha # cur.cfg.srcsha THEN "frames differ" ELSE "ok"

\* third-party fixture (C06): a codestream made by another encoder from a raw image that is logged next to the output
FixReason == IF E.err # "" THEN "third-party codestream rejected"
             ELSE IF E.nout # 1 THEN "third-party codestream gives another frame count"
             ELSE IF E.outlen # E.srclen THEN "third-party codestream decodes to another size"
             ELSE IF E.outsha # E.srcsha \/ (~E.big /\ E.out # E.src) THEN "third-party codestream decodes to other samples"
             ELSE "ok"

Reason == CASE E.ev = "enc" -> EncReason [] E.ev = "dec" -> DecReason
            [] E.ev = "cenc" -> CEncReason [] E.ev = "cdec" -> CDecReason [] OTHER -> "ok"

Init == l = 1 /\ mode = "run" /\ cur = [prop |-> "", rel |-> "", cfg |-> <<>>, src |-> <<>>] /\ nacc = 0
Step ==
  /\ l <= Len(Tr) /\ l' = l + 1
  /\ IF E.ev = "reset" THEN mode' = "run" /\ cur' = [prop |-> E.prop, rel |-> E.rel, cfg |-> <<>>, src |-> <<>>] /\ nacc' = nacc
     ELSE IF mode = "skip" THEN UNCHANGED <<mode, cur, nacc>>
     ELSE IF E.ev = "fixdec"
     THEN LET r == FixReason IN
          IF r = "ok" THEN nacc' = nacc + 1 /\ UNCHANGED <<mode, cur>>
          ELSE /\ PrintT("@@REJECT|" \o ToString(E.scn) \o "|" \o ToString(E.k) \o "|C06/fixture/" \o r \o "/" \o E.name \o "-" \o E.kind
                          \o "|" \o ToString(E.info) \o " err=" \o E.err)
               /\ UNCHANGED <<mode, cur, nacc>>
     ELSE LET r == Reason IN
          IF r = "ok"
          THEN /\ mode' = mode /\ nacc' = nacc + (IF E.ev \in {"dec", "cdec"} THEN 1 ELSE 0)
               /\ cur' = IF E.ev = "enc" THEN [cur EXCEPT !.cfg = E.cfg, !.src = E.src]
                         ELSE IF E.ev = "cenc" THEN [cur EXCEPT !.cfg = CCfg, !.src = E.src] ELSE cur
          ELSE LET cfg == IF E.ev = "enc" THEN E.cfg ELSE IF E.ev = "cenc" THEN CCfg ELSE cur.cfg IN
               /\ PrintT("@@REJECT|" \o ToString(E.scn) \o "|" \o ToString(E.k) \o "|" \o cur.prop \o "/roundtrip/" \o r
                          \o "/" \o Disc(cur.prop, cfg) \o "|" \o ToString(cfg) \o " err=" \o E.err)
               /\ mode' = "skip" /\ UNCHANGED <<cur, nacc>>
Finish == l = Len(Tr) + 1 /\ PrintT("@@ACCEPT|" \o ToString(nacc)) /\ PrintT("@@DONE|" \o ToString(Len(Tr)))
          /\ l' = l + 1 /\ UNCHANGED <<mode, cur, nacc>>
TraceSpec == Init /\ [][Step \/ Finish]_tvars
=============================================================================
