------------------------------- MODULE T1Gen -------------------------------
(***************************************************************************)
(* Reverse direction for the block coder: the Annex D reference ENCODER of *)
(* module T1 codes random small blocks under every code-block style; each  *)
(* behaviour (run under TLC -simulate) is one block emitted with its       *)
(* codeword segments, to be decoded by the library's block decoder.        *)
(***************************************************************************)
EXTENDS T1, Json, Randomization
CONSTANTS MaxDim
VARIABLES phase, G, src
vars == <<phase, G, src>>
Init == phase = "pick" /\ G = <<>> /\ src = <<>>
Pick == /\ phase = "pick"
        /\ G' = [w |-> RandomElement(1..MaxDim), h |-> RandomElement(1..MaxDim), orient |-> RandomElement(0..3), style |-> RandomElement(0..63)]
        /\ phase' = "fill" /\ UNCHANGED src
Fill == /\ phase = "fill"
        /\ LET bits == RandomElement(1..9)  dens == RandomElement({1, 2, 5}) IN
           src' = [i \in 1..(G.w * G.h) |-> IF RandomElement(1..dens) = 1 THEN RandomElement((-(2^bits - 1))..(2^bits - 1)) ELSE 0]
        /\ phase' = "emit" /\ UNCHANGED G
\* cumulative end of the segment containing each pass (the library's decoder takes one cumulative length per pass)
RECURSIVE Concat(_, _, _)
Concat(segs, k, acc) == IF k > Len(segs) THEN acc ELSE Concat(segs, k + 1, acc \o segs[k].bytes)
RECURSIVE Ends(_, _, _, _)
Ends(segs, k, tot, acc) == IF k > Len(segs) THEN acc
                           ELSE LET t == tot + Len(segs[k].bytes) IN Ends(segs, k + 1, t, acc \o [j \in 1..(segs[k].last - segs[k].first + 1) |-> t])
Emit == /\ phase = "emit"
        /\ LET e == EncodeBlock(G, src) IN
           PrintT("@@SCN|" \o ToJson([w |-> G.w, h |-> G.h, orient |-> G.orient, style |-> G.style, planes |-> e.P, src |-> src,
                                      code |-> Concat(e.segs, 1, <<>>), rates |-> Ends(e.segs, 1, 0, <<>>)]))
        /\ phase' = "done" /\ UNCHANGED <<G, src>>
Next == Pick \/ Fill \/ Emit
Spec == Init /\ [][Next]_vars
\* the reference decoder inverts the reference encoder on everything that is emitted
SelfDecode == phase = "emit" => LET e == EncodeBlock(G, src) d == DecodeBlock(G, e.P, e.segs) IN d.ok /\ d.val = src
=============================================================================
