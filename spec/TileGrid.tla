------------------------------ MODULE TileGrid ------------------------------
(***************************************************************************)
(* ITU-T T.800 Annex B geometry: tiles on the reference grid (B.3), tile-  *)
(* component resolutions and sub-bands (B.5), code-block partition (B.7),  *)
(* for XOsiz = YOsiz = XTOsiz = YTOsiz = 0 and no sub-sampling, which is   *)
(* all the library's encoder produces.  Transcribed from the standard.     *)
(***************************************************************************)
EXTENDS Integers, Sequences, FiniteSets

CeilDiv(a, b) == -((-a) \div b)          \* b > 0; TLA+ \div is floor division
Min2(a, b) == IF a < b THEN a ELSE b

NumTilesX(w, tw) == CeilDiv(w, tw)
NumTilesY(h, th) == CeilDiv(h, th)

\* B.3: tile t (raster index from 0) covers [tx0,tx1) x [ty0,ty1)
TileRect(w, h, tw, th, t) ==
  LET p == t % NumTilesX(w, tw)
      q == t \div NumTilesX(w, tw)
  IN [x0 |-> p * tw, x1 |-> Min2((p + 1) * tw, w), y0 |-> q * th, y1 |-> Min2((q + 1) * th, h)]

Tiles(w, h, tw, th) == 0..(NumTilesX(w, tw) * NumTilesY(h, th) - 1)

\* B.5: resolution r of a tile-component with NL decomposition levels
ResRect(rc, NL, r) ==
  LET d == 2^(NL - r) IN
  [x0 |-> CeilDiv(rc.x0, d), x1 |-> CeilDiv(rc.x1, d), y0 |-> CeilDiv(rc.y0, d), y1 |-> CeilDiv(rc.y1, d)]

\* B.5 eq. B-15: sub-band b of decomposition level nb; xob,yob in {0,1}: LL=(0,0) HL=(1,0) LH=(0,1) HH=(1,1)
BandRect(rc, nb, xob, yob) ==
  LET d == 2^nb
      o == 2^(nb - 1)
  IN [x0 |-> CeilDiv(rc.x0 - xob * o, d), x1 |-> CeilDiv(rc.x1 - xob * o, d),
      y0 |-> CeilDiv(rc.y0 - yob * o, d), y1 |-> CeilDiv(rc.y1 - yob * o, d)]

\* the sub-bands that belong to resolution r: r = 0 -> LL of level NL; r > 0 -> HL, LH, HH of level NL-r+1
BandsOfRes(rc, NL, r) ==
  IF r = 0 THEN << (IF NL = 0 THEN rc ELSE BandRect(rc, NL, 0, 0)) >>
  ELSE LET nb == NL - r + 1 IN << BandRect(rc, nb, 1, 0), BandRect(rc, nb, 0, 1), BandRect(rc, nb, 1, 1) >>

Area(rc) == (IF rc.x1 > rc.x0 THEN rc.x1 - rc.x0 ELSE 0) * (IF rc.y1 > rc.y0 THEN rc.y1 - rc.y0 ELSE 0)
Empty(rc) == rc.x1 <= rc.x0 \/ rc.y1 <= rc.y0

\* B.7: the code-block grid is anchored at (0,0) of the sub-band domain; widths of the pieces of [a,b)
RECURSIVE Cuts(_, _, _)
Cuts(a, b, s) == IF a >= b THEN <<>> ELSE
  LET q == Min2(b, ((a \div s) + 1) * s) IN <<q - a>> \o Cuts(q, b, s)

(***************************************************************************)
(* Design properties (model-checked in MC_TileGrid)                        *)
(***************************************************************************)
\* tiles partition the image
TilesPartition(w, h, tw, th) ==
  /\ \A x \in 0..(w - 1), y \in 0..(h - 1) :
       Cardinality({t \in Tiles(w, h, tw, th) :
          LET rc == TileRect(w, h, tw, th, t) IN x >= rc.x0 /\ x < rc.x1 /\ y >= rc.y0 /\ y < rc.y1}) = 1
  /\ \A t \in Tiles(w, h, tw, th) : ~Empty(TileRect(w, h, tw, th, t))

\* the sub-bands of all resolutions have together exactly as many samples as the tile-component
RECURSIVE SumBandAreas(_, _, _)
SumBandAreas(rc, NL, r) ==
  IF r > NL THEN 0
  ELSE LET bs == BandsOfRes(rc, NL, r) IN
       (IF Len(bs) = 1 THEN Area(bs[1]) ELSE Area(bs[1]) + Area(bs[2]) + Area(bs[3])) + SumBandAreas(rc, NL, r + 1)
BandsPartition(rc, NL) == SumBandAreas(rc, NL, 0) = Area(rc)

\* two formulations of B.5 agree: resolution r is the LL band of level NL-r, obtained either
\* directly from the origin (ResRect) or by repeated halving with origin parity
RECURSIVE Halve(_, _)
Halve(rc, n) == IF n = 0 THEN rc ELSE
  Halve([x0 |-> CeilDiv(rc.x0, 2), x1 |-> CeilDiv(rc.x1, 2), y0 |-> CeilDiv(rc.y0, 2), y1 |-> CeilDiv(rc.y1, 2)], n - 1)
ResFormulationsAgree(rc, NL) == \A r \in 0..NL : ResRect(rc, NL, r) = Halve(rc, NL - r)

(***************************************************************************)
(* Diagnostic predicate used by the C19 trace specification: does coding a *)
(* tile as if its origin were (0,0) (what jpeg2000/encoder.go does:        *)
(* buildTilePacketEncoder gets only width and height) give the same        *)
(* sub-band sizes, code-block cuts and code-block indices as the absolute  *)
(* coordinates the standard (and the decoder) use?                         *)
(***************************************************************************)
LocalRect(rc) == [x0 |-> 0, x1 |-> rc.x1 - rc.x0, y0 |-> 0, y1 |-> rc.y1 - rc.y0]

BandSame(a, b, cbw, cbh) ==
  /\ Cuts(a.x0, a.x1, cbw) = Cuts(b.x0, b.x1, cbw)
  /\ Cuts(a.y0, a.y1, cbh) = Cuts(b.y0, b.y1, cbh)
  /\ (Empty(a) \/ (a.x0 \div cbw = 0 /\ a.y0 \div cbh = 0))

TileLocalEqualsAbsolute(rc, NL, cbw, cbh) ==
  /\ rc.x0 < cbw /\ rc.y0 < cbh
  /\ \A r \in 0..NL :
       LET A == BandsOfRes(rc, NL, r)
           B == BandsOfRes(LocalRect(rc), NL, r)
       IN \A i \in 1..Len(A) : BandSame(A[i], B[i], cbw, cbh)

OriginIndependent(w, h, tw, th, NL, cbw, cbh) ==
  \A t \in Tiles(w, h, tw, th) : TileLocalEqualsAbsolute(TileRect(w, h, tw, th, t), NL, cbw, cbh)
=============================================================================
