SPECIFICATION Spec
CONSTANTS
  MaxW = 3
  MaxH = 3
  P = 2
  Nears = {0, 1}
  Comps = 1
  Reset = 3
  BiasLim = 2
INVARIANTS ContextsBounded RunIndexBounded RoundTrip SameStatistics
CHECK_DEADLOCK FALSE
