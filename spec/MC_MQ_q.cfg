SPECIFICATION Spec
CONSTANTS
  MaxLen = 8
  Ctxs = {0, 1}
  Prefix <- NoPrefix
INVARIANTS RoundTrip Stuffing Registers
CHECK_DEADLOCK FALSE
