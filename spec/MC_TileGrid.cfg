SPECIFICATION Spec
CONSTANTS
  MaxW = 8
  MaxH = 8
  MaxL = 3
INVARIANTS Partition Bands
CHECK_DEADLOCK FALSE
