----------------------------- MODULE FrameMapSim -----------------------------
(* Simulation wrapper of FrameMap: long histories are sampled, not enumerated.  Ops is far too
   large to enumerate at MaxSeq = 8, so one operation is drawn with RandomElement. *)
EXTENDS FrameMap, Randomization
SimNext == /\ Len(hist) < MaxOps
           /\ LET n == RandomElement(1..MaxSeq)
                  o == [op |-> RandomElement({"enc", "dec"}),
                        frames |-> [i \in 1..n |-> RandomElement(Frames)],
                        params |-> RandomElement(ParamIds)]
              IN Do(o)
           /\ (Len(hist') >= 2 => PrintT("@@SCN|" \o ToJson([ops |-> hist'])))
SimSpec == Init /\ [][SimNext]_vars
=============================================================================
