------------------------------ MODULE ArgsTrace ------------------------------
(***************************************************************************)
(* Trace specification for C17.  Event "args": the argument tuple a (with  *)
(* the actual buffer length), outcome in {ok, error, panic}, and - when a  *)
(* stream was returned - what the matching decoder reports for it.         *)
(*   never panic ; not Representable(a) => error ;                         *)
(*   ok => the stream decodes to exactly the requested geometry.           *)
(* Event "cargs": codec-level calls (registered codecs through PixelData). *)
(***************************************************************************)
EXTENDS Args
CONSTANT TraceFile
Tr == ndJsonDeserialize(TraceFile)
VARIABLES l, nacc
tvars == <<l, nacc>>
E == Tr[l]

ArgsReason ==
  IF E.outcome = "panic" THEN "panic"
  ELSE IF ~Representable(E.a) /\ E.outcome = "ok" THEN "accepts unrepresentable input"
  ELSE IF E.outcome = "ok" /\ E.dec.err # "" THEN "returned a stream its own decoder rejects"
  ELSE IF E.outcome = "ok" /\ (E.dec.w # E.a.w \/ E.dec.h # E.a.h \/ E.dec.c # E.a.c \/ E.dec.p # E.a.p) THEN "returned a stream that declares another geometry"
  ELSE "ok"
\* which limit was crossed (first failing clause), for the classification key
Crossed(a) ==
  IF a.w < 1 \/ a.h < 1 THEN "non-positive dimension"
  ELSE IF a.enc # "j2k" /\ (a.w > 65535 \/ a.h > 65535) THEN "dimension above 65535"
  ELSE IF a.buflen < Required(a) THEN "short buffer"
  ELSE IF ~(a.enc = "j2k" \/ a.c \in {1, 3}) \/ (a.enc = "j2k" /\ a.c \notin 1..4) \/ (a.enc = "extended" /\ a.p = 12 /\ a.c # 1) THEN "component count"
  ELSE IF (a.enc = "extended" /\ a.p \notin {8, 12}) \/ (a.enc \in {"jpegll", "sv1", "jls", "jlsnear"} /\ a.p \notin 2..16)
          \/ (a.enc = "j2k" /\ a.p \notin 1..16) THEN "bit depth"
  ELSE IF a.enc \in {"baseline", "extended"} /\ a.q \notin 1..100 THEN "quality"
  ELSE IF a.enc = "jlsnear" /\ ~(a.near >= 0 /\ a.near <= 255 /\ 2 * a.near <= 2^a.p - 1) THEN "NEAR"
  ELSE IF a.enc = "jpegll" /\ a.pred \notin 0..7 THEN "predictor"
  ELSE IF a.enc = "j2k" /\ a.levels \notin 0..6 THEN "levels"
  ELSE IF a.enc = "j2k" /\ a.layers < 1 THEN "layers"
  ELSE IF a.enc = "j2k" THEN "code-block size" ELSE "-"

CArgsReason ==
  IF E.outcome = "panic" THEN "panic"
  ELSE IF E.mustfail = 1 /\ E.outcome = "ok" THEN "accepts unrepresentable input"
  ELSE IF E.outcome = "ok" /\ E.nout # E.nin THEN "frame count"
  ELSE IF E.outcome = "ok" /\ E.decerr # "" THEN "returned a stream its own decoder rejects"
  ELSE IF E.outcome = "ok" /\ \E i \in 1..Len(E.declens) : E.declens[i] # E.wantlen THEN "decoded frame size differs from the request"
  ELSE "ok"

Init == l = 1 /\ nacc = 0
Step ==
  /\ l <= Len(Tr) /\ l' = l + 1
  /\ IF E.ev = "args"
     THEN LET r == ArgsReason IN
          IF r = "ok" THEN nacc' = nacc + 1
          ELSE PrintT("@@REJECT|" \o ToString(E.scn) \o "|" \o ToString(E.k) \o "|C17/" \o E.a.enc \o "/" \o r \o "/" \o Crossed(E.a) \o "|" \o ToString(E.a)
                      \o " site=" \o E.site \o " err=" \o E.dec.err) /\ UNCHANGED nacc
     ELSE IF E.ev = "cargs"
     THEN LET r == CArgsReason IN
          IF r = "ok" THEN nacc' = nacc + 1
          ELSE PrintT("@@REJECT|" \o ToString(E.scn) \o "|" \o ToString(E.k) \o "|C17/codec " \o E.ts \o "/" \o r \o "/" \o E.what \o "|" \o ToString(E.info)
                      \o " site=" \o E.site) /\ UNCHANGED nacc
     ELSE UNCHANGED nacc
Finish == l = Len(Tr) + 1 /\ PrintT("@@ACCEPT|" \o ToString(nacc)) /\ PrintT("@@DONE|" \o ToString(Len(Tr))) /\ l' = l + 1 /\ UNCHANGED nacc
TraceSpec == Init /\ [][Step \/ Finish]_tvars
=============================================================================
