SPECIFICATION Spec
CONSTANTS
  MaxLen = 6
  VMax = 2
  MaxW = 3
  MaxH = 2
  MaxL = 2
  RMax = 4
INVARIANTS Lift1D Lift2D Rct LowCount
CHECK_DEADLOCK FALSE
