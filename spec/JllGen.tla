------------------------------- MODULE JllGen -------------------------------
(***************************************************************************)
(* Reverse direction of C13: the T.81 reference ENCODER machine produces   *)
(* conformant lossless streams over predictor 1..7 x precision 2..16 x     *)
(* components {1,3} x table destinations Td in 0..3 per component x table  *)
(* families {standard DC table extended to 17 categories, random valid     *)
(* canonical tables of three length profiles} x segment-order variants     *)
(* (DHT before/after SOF3, optional APPn / COM, an unused AC-class table). *)
(* Run with -simulate: every behaviour is one stream, emitted as a         *)
(* scenario when the encoder machine finishes.                             *)
(***************************************************************************)
EXTENDS JpegLossless, Json, Randomization
CONSTANTS MaxDim

VARIABLES phase, hd, img, es, variant
vars == <<phase, hd, img, es, variant>>

Profiles == << <<0, 1, 5, 1, 1, 1, 1, 1, 1, 1, 1, 1, 1, 1, 0, 0>>,       \* K.3 luminance DC extended to 17 categories
               <<0, 0, 0, 0, 17, 0, 0, 0, 0, 0, 0, 0, 0, 0, 0, 0>>,      \* flat 5-bit codes
               <<0, 2, 2, 2, 2, 2, 2, 2, 2, 1, 0, 0, 0, 0, 0, 0>>,       \* steep
               <<1, 1, 1, 1, 1, 1, 1, 1, 1, 1, 1, 1, 1, 1, 1, 2>> >>     \* lengths 1..16: NOT valid (last code all ones), never drawn
RandPerm(n) == LET S == RandomSubset(1, Permutations(1..n)) IN CHOOSE p \in S : TRUE

\* Permutations(1..17) is far too large to build: draw a permutation by random insertion instead
RECURSIVE Shuffle(_, _)
Shuffle(rest, acc) == IF rest = {} THEN acc ELSE LET v == RandomElement(rest) IN Shuffle(rest \ {v}, Append(acc, v))
RandTable == LET k == RandomElement(1..3) IN
             IF k = 1 /\ RandomElement({0, 1}) = 0 THEN MkTable(Profiles[1], [i \in 1..17 |-> i - 1])
             ELSE MkTable(Profiles[k], Shuffle(0..16, <<>>))

Init == phase = "pick" /\ hd = <<>> /\ img = <<>> /\ es = <<>> /\ variant = <<>>

\* RandomElement is re-evaluated at every textual use, so the draws are made once, into `variant',
\* and everything else is a deterministic function of that record.
Pick1 ==
  /\ phase = "pick"
  /\ variant' = [w |-> RandomElement(1..MaxDim), h |-> RandomElement(1..MaxDim), nf |-> RandomElement({1, 3}),
                 p |-> RandomElement(2..16), ss |-> RandomElement(1..7), cidBase |-> RandomElement({0, 1, 7}),
                 content |-> RandomElement({"noise", "extremes", "smooth"}),
                 tabs |-> [t \in 0..3 |-> RandTable], td |-> [k \in 1..3 |-> RandomElement(0..3)],
                 dhtFirst |-> RandomElement({TRUE, FALSE}), app |-> RandomElement({0, 1, 2}), acTable |-> RandomElement({TRUE, FALSE})]
  /\ phase' = "pick2" /\ UNCHANGED <<hd, img, es>>

Pick2 ==
  /\ phase = "pick2"
  /\ LET v == variant  mx == 2^v.p - 1 IN
     /\ hd' = [ok |-> TRUE, why |-> "", sof |-> TRUE, sofok |-> TRUE, sosok |-> TRUE, p |-> v.p, h |-> v.h, w |-> v.w, nf |-> v.nf,
               cid |-> [k \in 1..v.nf |-> v.cidBase + k - 1], hv |-> [k \in 1..v.nf |-> 17], ns |-> v.nf,
               scs |-> [k \in 1..v.nf |-> v.cidBase + k - 1], td |-> [k \in 1..v.nf |-> v.td[k]], ss |-> v.ss, pt |-> 0,
               scan |-> 0, ri |-> 0, tab |-> v.tabs, def |-> [t \in 0..3 |-> TRUE]]
     /\ img' = [i \in 1..(v.w * v.h * v.nf) |->
                  CASE v.content = "noise" -> RandomElement(0..mx)
                    [] v.content = "extremes" -> RandomElement({0, mx, mx \div 2, (mx \div 2) + 1})
                    [] OTHER -> (((i - 1) \div v.nf) * 3 + RandomElement(0..2)) % (mx + 1)]
  /\ phase' = "enc" /\ es' = InitState(hd') /\ UNCHANGED variant

Enc == /\ phase = "enc" /\ ~Done(hd, es) /\ es' = EncStep(hd, es, img) /\ UNCHANGED <<phase, hd, img, variant>>

UsedTd == {hd.td[k] : k \in 1..hd.nf}
RECURSIVE DhtAll(_, _)
DhtAll(S, acc) == IF S = {} THEN acc ELSE LET t == CHOOSE t \in S : \A u \in S : t <= u IN DhtAll(S \ {t}, acc \o Dht(t, hd.tab[t]))
AcDht == Seg(196, <<16>> \o <<0, 2, 1, 0, 0, 0, 0, 0, 0, 0, 0, 0, 0, 0, 0, 0>> \o <<1, 2, 3>>)     \* Tc = 1, Th = 0: unused by lossless
App == CASE variant.app = 0 -> <<>>
         [] variant.app = 1 -> Seg(224, <<74, 70, 73, 70, 0, 1, 1, 0, 0, 1, 0, 1, 0, 0>>)           \* JFIF APP0
         [] OTHER -> Seg(238, <<65, 100, 111, 98, 101, 0, 100, 0, 0, 0, 0, 0>>) \o Seg(254, <<118, 101, 114, 105, 102>>)  \* Adobe APP14 + COM
Tables == (IF variant.acTable THEN AcDht ELSE <<>>) \o DhtAll(UsedTd, <<>>)
Stream == <<255, 216>> \o App \o (IF variant.dhtFirst THEN Tables \o Sof3(hd) ELSE Sof3(hd) \o Tables)
          \o Sos(hd) \o Stuff(es.bits, 1, <<>>) \o <<255, 217>>

Emit == /\ phase = "enc" /\ Done(hd, es)
        /\ PrintT("@@SCN|" \o ToJson([stream |-> Stream, src |-> img, w |-> hd.w, h |-> hd.h, c |-> hd.nf, p |-> hd.p, pred |-> hd.ss,
                                      td |-> hd.td, app |-> variant.app, dhtFirst |-> variant.dhtFirst, acTable |-> variant.acTable,
                                      content |-> variant.content]))
        /\ phase' = "done" /\ UNCHANGED <<hd, img, es, variant>>
Next == Pick1 \/ Pick2 \/ Enc \/ Emit
Spec == Init /\ [][Next]_vars

\* every emitted stream is one the reference decoder accepts (checked on the way)
TablesValid == phase \notin {"pick", "pick2"} => \A t \in 0..3 : ValidTable(hd.tab[t])
SelfParse == (phase = "enc" /\ Done(hd, es)) =>
               LET h2 == Header(Stream) IN Decodable(h2) /\ h2.w = hd.w /\ h2.h = hd.h /\ h2.p = hd.p /\ h2.ss = hd.ss /\ h2.td = hd.td
=============================================================================
