------------------------------ MODULE JllTrace ------------------------------
(***************************************************************************)
(* Trace specification for C13.                                             *)
(*  fwd : a stream produced by lossless.Encode / lossless14sv1.Encode is    *)
(*        decoded by the T.81 reference decoder MACHINE (one TLC state per  *)
(*        MCU) and must give the source image; its frame header must        *)
(*        declare the requested geometry, precision and predictor.          *)
(*  rev : a conformant stream emitted by the reference ENCODER machine      *)
(*        (JllGen, TLC -simulate) was given to the library decoders; their  *)
(*        output must be the source image of that stream.                   *)
(***************************************************************************)
EXTENDS JpegLossless, Json
CONSTANT TraceFile
Tr == ndJsonDeserialize(TraceFile)
VARIABLES l, mode, ph, ds, nacc, nsteps
tvars == <<l, mode, ph, ds, nacc, nsteps>>
E == Tr[l]
Hd == TLCGet(8)            \* parsed header and unstuffed scan bits of the current fwd event (registers, not state)
ScanBits == TLCGet(7)

FwdPre(h) ==
  IF E.err # "" THEN "library call failed"
  ELSE IF ~h.ok THEN "header: " \o h.why
  ELSE IF ~Decodable(h) THEN "stream is not a decodable T.81 lossless stream"
  ELSE IF h.w # E.cfg.w \/ h.h # E.cfg.h \/ h.nf # E.cfg.c \/ h.p # E.cfg.p THEN "header: frame geometry"
  ELSE IF E.cfg.pred >= 1 /\ h.ss # E.cfg.pred THEN "header: predictor"
  ELSE IF h.pt # 0 THEN "header: point transform"
  ELSE "ok"
FwdPost ==
  IF ds.pos < 0 THEN "reference decoder ran out of data"
  ELSE IF Output(Hd, ds.out) # E.src THEN "reference decoder does not recover the source"
  ELSE IF Len(ScanBits) - (ds.pos - 1) >= 8 THEN "unread data before EOI"
  ELSE "ok"
RevReason ==
  IF E.err # "" THEN "library decoder rejected a conformant stream"
  ELSE IF E.geom.w # E.w \/ E.geom.h # E.h \/ E.geom.c # E.c \/ E.geom.p # E.p THEN "library decoder reports wrong geometry"
  ELSE IF E.out # E.src THEN "library decoder does not recover the source"
  ELSE "ok"
\* discriminators of root-caused deviations (stream facts only)
RevDisc(r) == IF r = "library decoder rejected a conformant stream"
              THEN (IF \E k \in 1..Len(E.td) : E.td[k] >= 2 THEN "Td>=2" ELSE IF \E k \in 1..Len(E.td) : E.td[k] = 1 THEN "Td=1" ELSE "-")
              ELSE (IF E.pred >= 2 THEN "pred2-7" ELSE IF \E k \in 1..Len(E.td) : E.td[k] >= 1 THEN "Td>=1" ELSE "-")

Reject(kind, r, d) == PrintT("@@REJECT|" \o ToString(E.scn) \o "|" \o ToString(E.k) \o "|C13/" \o kind \o "/" \o r \o "/" \o d \o "|" \o
                             (IF E.ev = "fwd" THEN ToString(E.cfg) ELSE E.api \o " " \o ToString([w |-> E.w, h |-> E.h, c |-> E.c, p |-> E.p, pred |-> E.pred, td |-> E.td])
                              \o " err=" \o E.err))
FwdDisc == IF E.cfg.pred >= 2 \/ E.cfg.pred = 0 THEN "pred2-7" ELSE "-"

Init == l = 1 /\ mode = "run" /\ ph = "idle" /\ ds = <<>> /\ nacc = 0 /\ nsteps = 0
Consume == l' = l + 1 /\ ph' = "idle" /\ ds' = <<>>
Step ==
  /\ l <= Len(Tr)
  /\ IF E.ev = "reset" THEN Consume /\ mode' = "run" /\ UNCHANGED <<nacc, nsteps>>
     ELSE IF mode = "skip" \/ E.ev \notin {"fwd", "rev"} THEN Consume /\ UNCHANGED <<mode, nacc, nsteps>>
     ELSE IF E.ev = "rev"
          THEN LET r == RevReason IN
               IF r = "ok" THEN Consume /\ nacc' = nacc + 1 /\ UNCHANGED <<mode, nsteps>>
               ELSE Reject("reverse", r, RevDisc(r)) /\ Consume /\ mode' = "skip" /\ UNCHANGED <<nacc, nsteps>>
     ELSE IF ph = "idle"
          THEN LET h == Header(E.stream)  r == FwdPre(h) IN
               IF r # "ok" THEN Reject("forward", r, FwdDisc) /\ Consume /\ mode' = "skip" /\ UNCHANGED <<nacc, nsteps>>
               ELSE /\ TLCSet(8, h) /\ TLCSet(7, Unstuff(SubSeq(E.stream, h.scan, Len(E.stream)), 1, <<>>))
                    /\ ph' = "dec" /\ ds' = InitState(h) /\ UNCHANGED <<l, mode, nacc, nsteps>>
     ELSE IF ~Done(Hd, ds) /\ ds.pos >= 0
          THEN ds' = DecStep(Hd, ScanBits, ds) /\ nsteps' = nsteps + 1 /\ UNCHANGED <<l, mode, ph, nacc>>
     ELSE LET r == FwdPost IN
          IF r = "ok" THEN Consume /\ nacc' = nacc + 1 /\ UNCHANGED <<mode, nsteps>>
          ELSE Reject("forward", r, FwdDisc) /\ Consume /\ mode' = "skip" /\ UNCHANGED <<nacc, nsteps>>
Finish == l = Len(Tr) + 1 /\ PrintT("@@ACCEPT|" \o ToString(nacc)) /\ PrintT("@@INFO|steps=" \o ToString(nsteps))
          /\ PrintT("@@DONE|" \o ToString(Len(Tr))) /\ l' = l + 1 /\ UNCHANGED <<mode, ph, ds, nacc, nsteps>>
TraceSpec == Init /\ [][Step \/ Finish]_tvars
=============================================================================
