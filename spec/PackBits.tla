------------------------------ MODULE PackBits ------------------------------
(***************************************************************************)
(* DICOM PS3.5 Annex G.3 (PackBits) as an explicit state machine.          *)
(*                                                                         *)
(*  - PBRead / PBReadN : the READER, transcribed from G.3.2 only.  This is *)
(*    the independent oracle of property C01.                              *)
(*  - Encoder machine (Feed / Finish): a transcription of the run/literal  *)
(*    packing policy with the packet limit MaxPkt as a PARAMETER so that   *)
(*    TLC can reach the split points (MaxPkt-1, MaxPkt, MaxPkt+1, 2*MaxPkt)*)
(*    and the 2/3 replicate threshold inside short behaviours.  It is used *)
(*    (a) to model-check "reader(encoder(x)) = x" for the design, and      *)
(*    (b) as the source of behaviours that are replayed into rle.Codec.    *)
(*    It is NOT an acceptance condition for the code: any valid PackBits   *)
(*    packetisation is accepted by the trace specification.                *)
(***************************************************************************)
EXTENDS Integers, Sequences, TLC

Rep(b, n) == [i \in 1..n |-> b]

(***************************************************************************)
(* G.3.2 reader.  Control byte n (unsigned): 0..127 -> copy the next n+1   *)
(* bytes literally; 129..255 -> repeat the next byte 257-n times; 128 ->   *)
(* no operation.  Returns <<"ok", bytes>> or <<"err", reason>>.            *)
(***************************************************************************)
RECURSIVE PBRead(_, _, _)
PBRead(s, i, acc) ==
  IF i > Len(s) THEN <<"ok", acc>>
  ELSE LET c == s[i] IN
    IF c < 128 THEN
       IF i + c + 1 > Len(s) THEN <<"err", "literal past end">>
       ELSE PBRead(s, i + c + 2, acc \o SubSeq(s, i + 1, i + c + 1))
    ELSE IF c > 128 THEN
       IF i + 1 > Len(s) THEN <<"err", "replicate past end">>
       ELSE PBRead(s, i + 2, acc \o Rep(s[i + 1], 257 - c))
    ELSE PBRead(s, i + 1, acc)

(***************************************************************************)
(* Reader that stops once n bytes have been produced (what a DICOM reader  *)
(* does: the segment may carry one trailing pad byte).  Result:            *)
(* <<"ok", bytes, next index>> ; it is an error for a packet to straddle n.*)
(***************************************************************************)
RECURSIVE PBReadN(_, _, _, _)
PBReadN(s, i, n, acc) ==
  IF Len(acc) = n THEN <<"ok", acc, i>>
  ELSE IF Len(acc) > n THEN <<"err", "packet straddles the plane end", i>>
  ELSE IF i > Len(s) THEN <<"err", "segment exhausted", i>>
  ELSE LET c == s[i] IN
    IF c < 128 THEN
       IF i + c + 1 > Len(s) THEN <<"err", "literal past end", i>>
       ELSE PBReadN(s, i + c + 2, n, acc \o SubSeq(s, i + 1, i + c + 1))
    ELSE IF c > 128 THEN
       IF i + 1 > Len(s) THEN <<"err", "replicate past end", i>>
       ELSE PBReadN(s, i + 2, n, acc \o Rep(s[i + 1], 257 - c))
    ELSE PBReadN(s, i + 1, n, acc)

(***************************************************************************)
(* Packet list of a stream (for classification and the packet-size check). *)
(* Each packet: <<kind, count>> with kind "lit" | "rep" | "nop".           *)
(***************************************************************************)
RECURSIVE Packets(_, _, _)
Packets(s, i, acc) ==
  IF i > Len(s) THEN acc
  ELSE LET c == s[i] IN
    IF c < 128 THEN Packets(s, i + c + 2, Append(acc, <<"lit", c + 1>>))
    ELSE IF c > 128 THEN Packets(s, i + 2, Append(acc, <<"rep", 257 - c>>))
    ELSE Packets(s, i + 1, Append(acc, <<"nop", 0>>))

(***************************************************************************)
(* Encoder machine                                                         *)
(***************************************************************************)
CONSTANTS Alphabet, MaxLen, MaxPkt
VARIABLES inp, prev, rep, lit, out, done
vars == <<inp, prev, rep, lit, out, done>>

\* emit literal packets from l while more than minRemain bytes are pending
RECURSIVE FlushLit(_, _, _)
FlushLit(l, o, minRemain) ==
  IF Len(l) > minRemain
  THEN LET c == IF Len(l) < MaxPkt THEN Len(l) ELSE MaxPkt
       IN FlushLit(SubSeq(l, c + 1, Len(l)), o \o <<c - 1>> \o SubSeq(l, 1, c), minRemain)
  ELSE <<l, o>>

RECURSIVE FlushRun(_, _, _)
FlushRun(b, n, o) ==
  IF n > 0
  THEN LET c == IF n < MaxPkt THEN n ELSE MaxPkt
       IN FlushRun(b, n - c, o \o <<(257 - c) % 256, b>>)
  ELSE o
\* NB: a remainder of one byte gives control (257-1) % 256 = 0, i.e. a literal packet of one
\* byte followed by that byte - this is what byte(257 - count) does in the code, and it is valid.

Init == inp = <<>> /\ prev = -1 /\ rep = 0 /\ lit = <<>> /\ out = <<>> /\ done = FALSE

Feed(b) ==
  /\ ~done /\ Len(inp) < MaxLen
  /\ inp' = Append(inp, b)
  /\ IF b = prev
     THEN /\ prev' = prev
          /\ IF rep + 1 > 2 /\ Len(lit) > 0
             THEN LET r == FlushLit(lit, out, 0) IN lit' = r[1] /\ out' = r[2] /\ rep' = rep + 1
             ELSE IF rep + 1 > MaxPkt
                  THEN /\ out' = out \o <<257 - MaxPkt, prev>> /\ rep' = rep + 1 - MaxPkt /\ lit' = lit
                  ELSE /\ rep' = rep + 1 /\ UNCHANGED <<lit, out>>
     ELSE LET l1 == CASE rep = 0 -> lit
                      [] rep = 1 -> Append(lit, prev)
                      [] rep = 2 -> lit \o <<prev, prev>>
                      [] OTHER -> lit
              o1 == IF rep > 2 THEN FlushRun(prev, rep, out) ELSE out
              r == FlushLit(l1, o1, MaxPkt)
          IN /\ lit' = r[1] /\ out' = r[2] /\ prev' = b /\ rep' = 1
  /\ UNCHANGED done

Finish ==
  /\ ~done
  /\ LET l1 == IF rep < 2 THEN lit \o Rep(prev, rep) ELSE lit
         r == FlushLit(l1, out, 0)
         o2 == IF rep >= 2 THEN FlushRun(prev, rep, r[2]) ELSE r[2]
     IN out' = o2
  /\ done' = TRUE /\ UNCHANGED <<inp, prev, rep, lit>>

Next == (\E b \in Alphabet : Feed(b)) \/ Finish
Spec == Init /\ [][Next]_vars

(***************************************************************************)
(* Properties of the design (scaled: the real code has MaxPkt = 128 and    *)
(* control bytes 257-c; with MaxPkt < 128 the same byte values stay valid) *)
(***************************************************************************)
RoundTrip == done => PBRead(out, 1, <<>>) = <<"ok", inp>>
PacketLimit == done => \A p \in 1..Len(Packets(out, 1, <<>>)) : Packets(out, 1, <<>>)[p][2] <= MaxPkt
NoNop == done => \A p \in 1..Len(Packets(out, 1, <<>>)) : Packets(out, 1, <<>>)[p][1] # "nop"
PendingBounded == Len(lit) <= MaxPkt + 2 /\ rep <= MaxPkt + 1
\* a replicate packet is only produced for runs longer than 2 (policy, informational)
TypeOK == /\ prev \in Alphabet \cup {-1} /\ rep \in 0..(MaxPkt + 1) /\ done \in BOOLEAN
=============================================================================
