----------------------------- MODULE MC_JpegLS -----------------------------
(***************************************************************************)
(* Model checking of the T.87 machines (properties C03, C07, C14):         *)
(* for every image in the scope, the decoder machine run on the encoder    *)
(* machine's byte stream reproduces the encoder's reconstruction, which is *)
(* within NEAR of the source (identical for NEAR = 0).  RESET and the bias *)
(* limits are constants so that scaled instances reach N-halving and bias  *)
(* saturation inside tiny images.                                          *)
(***************************************************************************)
EXTENDS JpegLS
CONSTANTS MaxW, MaxH, P, Nears, Comps, Reset, BiasLim
VARIABLES img, pr, phase, es, ds, bs
vars == <<img, pr, phase, es, ds, bs>>

Init ==
  \E w \in 1..MaxW, h \in 1..MaxH, near \in Nears :
    /\ pr = Params(w, h, Comps, P, near, Reset, -BiasLim - 1, BiasLim)
    /\ img \in [1..(w * h * Comps) -> 0..(2^P - 1)]
    /\ phase = "enc" /\ es = InitState(pr) /\ ds = InitState(pr) /\ bs = <<>>

Next ==
  \/ /\ phase = "enc" /\ ~Done(pr, es) /\ es' = EncStep(pr, es, img) /\ UNCHANGED <<img, pr, phase, ds, bs>>
  \/ /\ phase = "enc" /\ Done(pr, es) /\ phase' = "dec"
     /\ bs' = Unpack(Pack(es.bits, 1, FALSE, <<>>) \o <<255, 217>>, 1, FALSE, <<>>)
     /\ UNCHANGED <<img, pr, es, ds>>
  \/ /\ phase = "dec" /\ ~Done(pr, ds) /\ ds.pos >= 0 /\ ds' = DecStep(pr, bs, ds) /\ UNCHANGED <<img, pr, phase, es, bs>>
  \/ /\ phase = "dec" /\ (Done(pr, ds) \/ ds.pos < 0) /\ phase' = "done" /\ UNCHANGED <<img, pr, es, ds, bs>>
Spec == Init /\ [][Next]_vars

CtxInv(s) == \A q \in 0..364 :
   /\ s.ctx.N[q] >= 1 /\ s.ctx.N[q] <= pr.reset
   /\ s.ctx.B[q] > -s.ctx.N[q] /\ s.ctx.B[q] <= 0
   /\ s.ctx.C[q] >= pr.minc /\ s.ctx.C[q] <= pr.maxc
ContextsBounded == CtxInv(es) /\ CtxInv(ds)
RunIndexBounded == es.ri \in 0..31 /\ ds.ri \in 0..31

RoundTrip == phase = "done" =>
   /\ ds.pos >= 0
   /\ ds.out = es.out
   /\ Len(es.out) = Len(img)
   /\ \A i \in 1..Len(img) : Abs(es.out[i] - img[i]) <= pr.near /\ es.out[i] >= 0 /\ es.out[i] <= pr.maxval
   /\ (pr.near = 0 => es.out = img)
   /\ ds.pos - 1 <= Len(bs) /\ Len(bs) - (ds.pos - 1) < 8       \* only padding bits remain
\* encoder and decoder evolve the same statistics
SameStatistics == phase = "done" => es.ctx = ds.ctx /\ es.ri = ds.ri
=============================================================================
