---------------------------- MODULE PacketHeader ----------------------------
(***************************************************************************)
(* ITU-T T.800 Annex B, tier 2: a STRICT reader of the packets of a        *)
(* codestream.                                                             *)
(*   B.5-B.7   tile-component, resolution, sub-band, precinct and          *)
(*             code-block geometry (reference-grid coordinates)            *)
(*   B.10.1    bit stuffing of packet headers (7-bit byte after 0xFF,      *)
(*             padding to a byte, extra byte after a final 0xFF)           *)
(*   B.10.2    tag trees (incremental decoding across layers)              *)
(*   B.10.3-7  zero-length flag, inclusion, zero bit-planes, number of     *)
(*             coding passes, Lblock and codeword-segment lengths          *)
(*             (single segment, TERMALL, selective bypass)                 *)
(*   B.12      the five progression orders                                 *)
(*   A.8       SOP / EPH                                                   *)
(* ReadPackets(s) parses every packet of every tile in progression order   *)
(* and accepts exactly when the packets fill the tile's tile-part bodies   *)
(* byte for byte.  Written from the standard; used by C16 (and as a strict *)
(* third-party-style reader behind C04/C05 streams).                       *)
(* Scope: no COC/QCC/POC/RGN/PPM/PPT, no HT code-blocks (CAP): such        *)
(* streams are reported as "skip", never judged.                           *)
(* Observed while binding (DESIGN.md 8): with user-defined precinct sizes  *)
(* (Scod bit 0) the library assigns code-blocks to precincts in a way that *)
(* differs from B.6/B.7 (code-block size is not limited by the precinct,   *)
(* band coordinates are divided by the resolution-domain precinct size,    *)
(* empty precincts get no packet), and its multi-tile encoder uses         *)
(* tile-local coordinates (known finding of C19); for such streams this    *)
(* reader and the library disagree about where packets start, which is     *)
(* outside what C16 states - the trace specification therefore uses the    *)
(* reader only to NAME a stuffing defect, see MarkersTrace.                *)
(***************************************************************************)
EXTENDS Markers

CeilDivZ(a, b) == -((-a) \div b)                       \* \div is floor division; valid for negative a
Max(a, b) == IF a > b THEN a ELSE b
MinI(a, b) == IF a < b THEN a ELSE b
RECURSIVE FloorLog2(_)
FloorLog2(n) == IF n <= 1 THEN 0 ELSE 1 + FloorLog2(n \div 2)

(***************************************************************************)
(* Geometry.  t = [x0, y0, x1, y1] tile on the reference grid; component   *)
(* sub-sampling dx, dy; nl decomposition levels.                           *)
(***************************************************************************)
TileComp(t, dx, dy) == [x0 |-> CeilDivZ(t.x0, dx), y0 |-> CeilDivZ(t.y0, dy), x1 |-> CeilDivZ(t.x1, dx), y1 |-> CeilDivZ(t.y1, dy)]
Res(tc, nl, r) == LET d == 2^(nl - r) IN [x0 |-> CeilDivZ(tc.x0, d), y0 |-> CeilDivZ(tc.y0, d), x1 |-> CeilDivZ(tc.x1, d), y1 |-> CeilDivZ(tc.y1, d)]
\* sub-band (xob, yob) of resolution r (B-15); r = 0 is the LL band of level nl
Band(tc, nl, r, ob) ==
  IF r = 0 THEN Res(tc, nl, 0)
  ELSE LET nb == nl - r + 1  d == 2^nb  hx == 2^(nb - 1) * ob[1]  hy == 2^(nb - 1) * ob[2]
       IN [x0 |-> CeilDivZ(tc.x0 - hx, d), y0 |-> CeilDivZ(tc.y0 - hy, d), x1 |-> CeilDivZ(tc.x1 - hx, d), y1 |-> CeilDivZ(tc.y1 - hy, d)]
BandsOf(r) == IF r = 0 THEN << <<0, 0>> >> ELSE << <<1, 0>>, <<0, 1>>, <<1, 1>> >>
\* precinct grid of resolution r with exponents pp = <<PPx, PPy>> (B.6)
NumPrecW(rs, pp) == IF rs.x1 > rs.x0 THEN CeilDivZ(rs.x1, 2^pp[1]) - (rs.x0 \div 2^pp[1]) ELSE 0
NumPrecH(rs, pp) == IF rs.y1 > rs.y0 THEN CeilDivZ(rs.y1, 2^pp[2]) - (rs.y0 \div 2^pp[2]) ELSE 0
\* code-block grid <<columns, rows>> of precinct (pi, pj) in band ob of resolution r (B.7)
CbGrid(tc, nl, r, pp, xcb, ycb, ob, pi, pj) ==
  LET rs == Res(tc, nl, r)
      bd == Band(tc, nl, r, ob)
      gw == IF r = 0 THEN pp[1] ELSE pp[1] - 1                       \* precinct exponent in the band domain
      gh == IF r = 0 THEN pp[2] ELSE pp[2] - 1
      ox == ((rs.x0 \div 2^pp[1]) * 2^pp[1]) \div (IF r = 0 THEN 1 ELSE 2)      \* origin of the precinct grid in the band domain
      oy == ((rs.y0 \div 2^pp[2]) * 2^pp[2]) \div (IF r = 0 THEN 1 ELSE 2)
      px0 == Max(ox + pi * 2^gw, bd.x0)  px1 == MinI(ox + (pi + 1) * 2^gw, bd.x1)
      py0 == Max(oy + pj * 2^gh, bd.y0)  py1 == MinI(oy + (pj + 1) * 2^gh, bd.y1)
      cw == MinI(xcb, gw)  ch == MinI(ycb, gh)
  IN IF px1 <= px0 \/ py1 <= py0 THEN <<0, 0>>
     ELSE << CeilDivZ(px1, 2^cw) - (px0 \div 2^cw), CeilDivZ(py1, 2^ch) - (py0 \div 2^ch) >>

(***************************************************************************)
(* B.10.1 bit reader.  rd = [i, n, ok]: n bits are left in byte i.          *)
(***************************************************************************)
Rd0(i) == [i |-> i, n |-> 8, ok |-> TRUE]
Bit(by, rd) ==
  IF rd.n = 0
  THEN LET j == rd.i + 1  n == IF by[rd.i] = 255 THEN 7 ELSE 8 IN
       IF j > Len(by) THEN <<0, [rd EXCEPT !.ok = FALSE]>>
       ELSE <<(by[j] \div 2^(n - 1)) % 2, [i |-> j, n |-> n - 1, ok |-> rd.ok /\ (n = 8 \/ by[j] < 128)]>>
  ELSE IF rd.i > Len(by) THEN <<0, [rd EXCEPT !.ok = FALSE]>>
  ELSE <<(by[rd.i] \div 2^(rd.n - 1)) % 2, [rd EXCEPT !.n = rd.n - 1]>>
RECURSIVE BitsN(_, _, _, _)
BitsN(by, rd, k, acc) == IF k = 0 THEN <<acc, rd>>
                         ELSE IF k > 30 THEN <<0, [rd EXCEPT !.ok = FALSE]>>          \* no length field is that wide (and TLC integers are 32-bit)
                         ELSE LET b == Bit(by, rd) IN BitsN(by, b[2], k - 1, 2 * acc + b[1])
RECURSIVE Comma(_, _, _)
Comma(by, rd, acc) == LET b == Bit(by, rd) IN
                      IF b[1] = 0 \/ ~b[2].ok THEN <<acc, b[2]>>
                      ELSE IF acc > 40 THEN <<acc, [b[2] EXCEPT !.ok = FALSE]>> ELSE Comma(by, b[2], acc + 1)
\* first byte after the header: finish the current byte; a final 0xFF is followed by one more (stuffed) byte
\* (lenient = TRUE describes the DEFECTIVE writer that omits that byte: used only to name the cause of a rejection)
AfterHeader(by, rd, lenient) == IF ~lenient /\ rd.i <= Len(by) /\ by[rd.i] = 255 THEN rd.i + 2 ELSE rd.i + 1

(***************************************************************************)
(* B.10.2 tag trees over a w x h grid of leaves.  Node <<k, x, y>> at      *)
(* level k covers leaves (x*2^k.., y*2^k..); state per node: lower bound   *)
(* `low' and value `val' (Unknown until the one-bit arrives).              *)
(***************************************************************************)
Unknown == 100000
RECURSIVE TopLevel(_, _, _)
TopLevel(w, h, k) == IF CeilDivZ(w, 2^k) <= 1 /\ CeilDivZ(h, 2^k) <= 1 THEN k ELSE TopLevel(w, h, k + 1)
TTInit(w, h) ==
  LET K == TopLevel(w, h, 0) IN
  [K |-> K, nd |-> [n \in UNION {{<<k, x, y>> : x \in 0..(CeilDivZ(w, 2^k) - 1), y \in 0..(CeilDivZ(h, 2^k) - 1)} : k \in 0..K} |-> <<0, Unknown>>]]
RECURSIVE TTBits(_, _, _, _, _)
TTBits(by, rd, low, val, t) ==
  IF low < t /\ low < val /\ rd.ok
  THEN LET b == Bit(by, rd) IN IF b[1] = 1 THEN TTBits(by, b[2], low, low, t) ELSE TTBits(by, b[2], low + 1, val, t)
  ELSE <<rd, low, val>>
\* decode leaf (x, y) against threshold t: is value < t ?
RECURSIVE TTLevel(_, _, _, _, _, _, _, _)
TTLevel(by, rd, tt, x, y, t, k, low) ==
  LET id == <<k, x \div 2^k, y \div 2^k>>
      n0 == tt.nd[id]
      r == TTBits(by, rd, Max(low, n0[1]), n0[2], t)
      tt1 == [tt EXCEPT !.nd[id] = <<r[2], r[3]>>]
  IN IF k = 0 THEN [rd |-> r[1], tt |-> tt1, hit |-> r[3] < t, val |-> r[3]] ELSE TTLevel(by, r[1], tt1, x, y, t, k - 1, r[2])
TTDecode(by, rd, tt, x, y, t) == TTLevel(by, rd, tt, x, y, t, tt.K, 0)
\* full value of a leaf (zero bit-planes): raise the threshold until the value is known
RECURSIVE TTValue(_, _, _, _, _, _)
TTValue(by, rd, tt, x, y, t) ==
  LET d == TTDecode(by, rd, tt, x, y, t) IN
  IF d.hit \/ ~d.rd.ok \/ t > 64 THEN d ELSE TTValue(by, d.rd, d.tt, x, y, t + 1)

(***************************************************************************)
(* B.10.6 number of coding passes; B.10.7 lengths                           *)
(***************************************************************************)
NumPasses(by, rd) ==
  LET b1 == Bit(by, rd) IN
  IF b1[1] = 0 THEN <<1, b1[2]>>
  ELSE LET b2 == Bit(by, b1[2]) IN
       IF b2[1] = 0 THEN <<2, b2[2]>>
       ELSE LET v2 == BitsN(by, b2[2], 2, 0) IN
            IF v2[1] < 3 THEN <<3 + v2[1], v2[2]>>
            ELSE LET v5 == BitsN(by, v2[2], 5, 0) IN
                 IF v5[1] < 31 THEN <<6 + v5[1], v5[2]>>
                 ELSE LET v7 == BitsN(by, v5[2], 7, 0) IN <<37 + v7[1], v7[2]>>
\* is coding pass p (0-based within the code-block) the last of its codeword segment?  (D.4, Table D.9)
Terminates(style, p) == IF (style \div 4) % 2 = 1 THEN TRUE ELSE IF style % 2 = 1 THEN p >= 9 /\ (p - 1) % 3 # 0 ELSE FALSE
\* lengths of the codeword segments contributed by passes p..last; returns <<total bytes, rd>>
RECURSIVE SegLens(_, _, _, _, _, _, _, _)
SegLens(by, rd, lb, style, p, last, cnt, acc) ==
  IF p > last THEN <<acc, rd>>
  ELSE IF Terminates(style, p) \/ p = last
       THEN LET v == BitsN(by, rd, lb + FloorLog2(cnt + 1), 0) IN SegLens(by, v[2], lb, style, p + 1, last, 0, acc + v[1])
       ELSE SegLens(by, rd, lb, style, p + 1, last, cnt + 1, acc)

(***************************************************************************)
(* One packet.  ps = state of the precinct: sequence over bands of          *)
(* [w, h, inc, zb, cb] with cb[j] = <<included, Lblock, passes so far>>.    *)
(***************************************************************************)
PrecInit(grids) == [b \in 1..Len(grids) |-> [w |-> grids[b][1], h |-> grids[b][2],
                                            inc |-> IF grids[b][1] * grids[b][2] = 0 THEN <<>> ELSE TTInit(grids[b][1], grids[b][2]),
                                            zb |-> IF grids[b][1] * grids[b][2] = 0 THEN <<>> ELSE TTInit(grids[b][1], grids[b][2]),
                                            cb |-> [j \in 1..(grids[b][1] * grids[b][2]) |-> <<FALSE, 3, 0>>]]]
\* code-blocks of one band, raster order; acc = [rd, bs (band state), body, ok]
RECURSIVE BandBlocks(_, _, _, _, _, _)
BandBlocks(by, st, style, layer, j, n) ==
  IF j > n \/ ~st.rd.ok THEN st
  ELSE LET bs == st.bs
           x == (j - 1) % bs.w  y == (j - 1) \div bs.w
           c == bs.cb[j]
       IN IF c[1]
          THEN \* already included in an earlier layer: one bit
               LET b == Bit(by, st.rd) IN
               IF b[1] = 0 THEN BandBlocks(by, [st EXCEPT !.rd = b[2]], style, layer, j + 1, n)
               ELSE LET np == NumPasses(by, b[2])
                        inc == Comma(by, np[2], 0)
                        lb == c[2] + inc[1]
                        sl == SegLens(by, inc[2], lb, style, c[3], c[3] + np[1] - 1, 0, 0)
                    IN BandBlocks(by, [st EXCEPT !.rd = sl[2], !.body = st.body + sl[1], !.bs.cb[j] = <<TRUE, lb, c[3] + np[1]>>], style, layer, j + 1, n)
          ELSE LET d == TTDecode(by, st.rd, bs.inc, x, y, layer + 1) IN
               IF ~d.hit THEN BandBlocks(by, [st EXCEPT !.rd = d.rd, !.bs.inc = d.tt], style, layer, j + 1, n)
               ELSE LET z == TTValue(by, d.rd, bs.zb, x, y, 1)
                        np == NumPasses(by, z.rd)
                        inc == Comma(by, np[2], 0)
                        lb == 3 + inc[1]
                        sl == SegLens(by, inc[2], lb, style, 0, np[1] - 1, 0, 0)
                    IN BandBlocks(by, [st EXCEPT !.rd = sl[2], !.body = st.body + sl[1], !.bs.inc = d.tt, !.bs.zb = z.tt,
                                                  !.bs.cb[j] = <<TRUE, lb, np[1]>>, !.ok = st.ok /\ d.val = layer], style, layer, j + 1, n)
RECURSIVE PacketBands(_, _, _, _, _, _, _)
PacketBands(by, rd, ps, style, layer, b, body) ==
  IF b > Len(ps) \/ ~rd.ok THEN [rd |-> rd, ps |-> ps, body |-> body, ok |-> TRUE]
  ELSE LET r == BandBlocks(by, [rd |-> rd, bs |-> ps[b], body |-> body, ok |-> TRUE], style, layer, 1, ps[b].w * ps[b].h)
           nx == PacketBands(by, r.rd, [ps EXCEPT ![b] = r.bs], style, layer, b + 1, r.body)
       IN [nx EXCEPT !.ok = nx.ok /\ r.ok]
\* returns [ok, why, next (first byte after the packet), ps]
Packet(by, pos, ps, style, layer, sop, eph, lenient) ==
  LET p1 == IF sop /\ pos + 5 <= Len(by) /\ by[pos] = 255 /\ by[pos + 1] = SOP THEN pos + 6 ELSE pos IN
  IF p1 > Len(by) THEN [ok |-> FALSE, why |-> "packet starts beyond the tile-part data", next |-> p1, ps |-> ps, ff |-> FALSE]
  ELSE LET b0 == Bit(by, Rd0(p1))
           r == IF b0[1] = 0 THEN [rd |-> b0[2], ps |-> ps, body |-> 0, ok |-> TRUE] ELSE PacketBands(by, b0[2], ps, style, layer, 1, 0)
           h1 == AfterHeader(by, r.rd, lenient)
           h2 == IF eph THEN h1 + 2 ELSE h1
       IN IF ~r.rd.ok THEN [ok |-> FALSE, why |-> "packet header runs off the data or breaks bit stuffing", next |-> h1, ps |-> r.ps, ff |-> FALSE]
          ELSE IF ~r.ok THEN [ok |-> FALSE, why |-> "inclusion tag tree value differs from the layer of first inclusion", next |-> h1, ps |-> r.ps, ff |-> FALSE]
          ELSE IF eph /\ (h1 + 1 > Len(by) \/ by[h1] # 255 \/ by[h1 + 1] # EPH) THEN [ok |-> FALSE, why |-> "EPH missing after the packet header", next |-> h1, ps |-> r.ps, ff |-> FALSE]
          ELSE IF h2 + r.body - 1 > Len(by) THEN [ok |-> FALSE, why |-> "packet body runs off the tile-part data", next |-> h2, ps |-> r.ps, ff |-> FALSE]
          ELSE [ok |-> TRUE, why |-> "", next |-> h2 + r.body, ps |-> r.ps, ff |-> by[r.rd.i] = 255]

(***************************************************************************)
(* B.12 progression orders: the sequence of <<layer, resolution,           *)
(* component, precinct>> of one tile.  cd = coding parameters              *)
(* [nl, layers, prog, xcb, ycb, style, pp (per resolution), sop, eph];     *)
(* comps = sub-sampling <<dx, dy>> per component.                          *)
(***************************************************************************)
NPrec(t, cd, comps, c, r) == LET rs == Res(TileComp(t, comps[c][1], comps[c][2]), cd.nl, r) IN NumPrecW(rs, cd.pp[r + 1]) * NumPrecH(rs, cd.pp[r + 1])
SeqOf(lo, hi) == [k \in 1..(hi - lo + 1) |-> lo + k - 1]
RECURSIVE FlatMap(_, _, _, _)
FlatMap(xs, F(_), k, acc) == IF k > Len(xs) THEN acc ELSE FlatMap(xs, F, k + 1, acc \o F(xs[k]))
RECURSIVE SortedSeq(_, _)
SortedSeq(S, acc) == IF S = {} THEN acc ELSE LET m == CHOOSE m \in S : \A u \in S : m <= u IN SortedSeq(S \ {m}, Append(acc, m))
\* precinct of (c, r) whose packets come at reference-grid position (x, y), or -1 (B.12.1.3-5)
PrecAt(t, cd, comps, c, r, x, y) ==
  LET dx == comps[c][1]  dy == comps[c][2]
      rs == Res(TileComp(t, dx, dy), cd.nl, r)
      pp == cd.pp[r + 1]
      sx == dx * 2^(pp[1] + cd.nl - r)  sy == dy * 2^(pp[2] + cd.nl - r)
      okx == x % sx = 0 \/ (x = t.x0 /\ (rs.x0 * 2^(cd.nl - r)) % (2^(pp[1] + cd.nl - r)) # 0)
      oky == y % sy = 0 \/ (y = t.y0 /\ (rs.y0 * 2^(cd.nl - r)) % (2^(pp[2] + cd.nl - r)) # 0)
      npw == NumPrecW(rs, pp)  nph == NumPrecH(rs, pp)
      pi == (CeilDivZ(x, dx * 2^(cd.nl - r)) \div 2^pp[1]) - (rs.x0 \div 2^pp[1])
      pj == (CeilDivZ(y, dy * 2^(cd.nl - r)) \div 2^pp[2]) - (rs.y0 \div 2^pp[2])
  IN IF okx /\ oky /\ npw > 0 /\ nph > 0 /\ pi >= 0 /\ pi < npw /\ pj >= 0 /\ pj < nph THEN pi + npw * pj ELSE -1
Positions(t, cd, comps, Cs, Rs) ==
  LET xs == {t.x0} \cup {x \in t.x0..(t.x1 - 1) : \E c \in Cs, r \in Rs : x % (comps[c][1] * 2^(cd.pp[r + 1][1] + cd.nl - r)) = 0}
      ys == {t.y0} \cup {y \in t.y0..(t.y1 - 1) : \E c \in Cs, r \in Rs : y % (comps[c][2] * 2^(cd.pp[r + 1][2] + cd.nl - r)) = 0}
      sx == SortedSeq(xs, <<>>)  sy == SortedSeq(ys, <<>>)
  IN FlatMap(sy, LAMBDA y : [k \in 1..Len(sx) |-> <<sx[k], y>>], 1, <<>>)
PacketOrder(t, cd, comps) ==
  LET nc == Len(comps)
      Ls == SeqOf(0, cd.layers - 1)  Rs == SeqOf(0, cd.nl)  Cs == SeqOf(1, nc)
      precs(c, r) == SeqOf(0, NPrec(t, cd, comps, c, r) - 1)
      at(c, r, xy) == LET p == PrecAt(t, cd, comps, c, r, xy[1], xy[2]) IN IF p < 0 THEN <<>> ELSE FlatMap(Ls, LAMBDA l : << <<l, r, c, p>> >>, 1, <<>>)
  IN CASE cd.prog = 0 -> FlatMap(Ls, LAMBDA l : FlatMap(Rs, LAMBDA r : FlatMap(Cs, LAMBDA c : FlatMap(precs(c, r), LAMBDA p : << <<l, r, c, p>> >>, 1, <<>>), 1, <<>>), 1, <<>>), 1, <<>>)
       [] cd.prog = 1 -> FlatMap(Rs, LAMBDA r : FlatMap(Ls, LAMBDA l : FlatMap(Cs, LAMBDA c : FlatMap(precs(c, r), LAMBDA p : << <<l, r, c, p>> >>, 1, <<>>), 1, <<>>), 1, <<>>), 1, <<>>)
       [] cd.prog = 2 -> FlatMap(Rs, LAMBDA r : FlatMap(Positions(t, cd, comps, 1..nc, {r}), LAMBDA xy : FlatMap(Cs, LAMBDA c : at(c, r, xy), 1, <<>>), 1, <<>>), 1, <<>>)
       [] cd.prog = 3 -> FlatMap(Positions(t, cd, comps, 1..nc, 0..cd.nl), LAMBDA xy : FlatMap(Cs, LAMBDA c : FlatMap(Rs, LAMBDA r : at(c, r, xy), 1, <<>>), 1, <<>>), 1, <<>>)
       [] OTHER -> FlatMap(Cs, LAMBDA c : FlatMap(Positions(t, cd, comps, {c}, 0..cd.nl), LAMBDA xy : FlatMap(Rs, LAMBDA r : at(c, r, xy), 1, <<>>), 1, <<>>), 1, <<>>)

(***************************************************************************)
(* All packets of one tile over its data bytes `by' (the tile's tile-part   *)
(* bodies concatenated).                                                    *)
(***************************************************************************)
Grids(t, cd, comps, c, r, p) ==
  LET tc == TileComp(t, comps[c][1], comps[c][2])
      rs == Res(tc, cd.nl, r)
      npw == NumPrecW(rs, cd.pp[r + 1])
      bs == BandsOf(r)
  IN [b \in 1..Len(bs) |-> CbGrid(tc, cd.nl, r, cd.pp[r + 1], cd.xcb, cd.ycb, bs[b], p % npw, p \div npw)]
RECURSIVE TilePackets(_, _, _, _, _, _, _, _, _, _)
TilePackets(by, t, cd, comps, order, k, pos, st, lenient, nff) ==
  IF k > Len(order) THEN (IF pos = Len(by) + 1 THEN [ok |-> TRUE, why |-> "", npk |-> Len(order), nff |-> nff]
                          ELSE [ok |-> FALSE, why |-> "packets end before the tile-part data does", npk |-> k - 1, nff |-> nff])
  ELSE LET o == order[k]
           key == <<o[3], o[2], o[4]>>
           ps == IF key \in DOMAIN st THEN st[key] ELSE PrecInit(Grids(t, cd, comps, o[3], o[2], o[4]))
           r == Packet(by, pos, ps, cd.style, o[1], cd.sop, cd.eph, lenient)
       IN IF ~r.ok THEN [ok |-> FALSE, why |-> r.why \o " (packet " \o ToString(k) \o ": layer " \o ToString(o[1]) \o " resolution " \o ToString(o[2]) \o " component " \o ToString(o[3] - 1) \o ")", npk |-> k - 1, nff |-> nff]
          ELSE TilePackets(by, t, cd, comps, order, k + 1, r.next, [x \in DOMAIN st \cup {key} |-> IF x = key THEN r.ps ELSE st[x]], lenient, nff + (IF r.ff THEN 1 ELSE 0))

(***************************************************************************)
(* Whole codestream                                                         *)
(***************************************************************************)
RECURSIVE TileData(_, _, _, _, _)
TileData(s, parts, tile, k, acc) ==
  IF k > Len(parts) THEN acc
  ELSE TileData(s, parts, tile, k + 1, IF parts[k].isot = tile THEN acc \o SubSeq(s, parts[k].dataA, parts[k].dataB) ELSE acc)
RECURSIVE AllTiles(_, _, _, _, _, _, _, _, _)
AllTiles(s, parts, tiles, cd, comps, k, npk, lenient, nff) ==
  IF k > Len(tiles) THEN [ok |-> TRUE, why |-> "", npk |-> npk, nff |-> nff]
  ELSE LET by == TileData(s, parts, k - 1, 1, <<>>)
           r == TilePackets(by, tiles[k], cd, comps, PacketOrder(tiles[k], cd, comps), 1, 1, <<>>, lenient, 0)
       IN IF ~r.ok THEN [ok |-> FALSE, why |-> "tile " \o ToString(k - 1) \o ": " \o r.why, npk |-> npk + r.npk, nff |-> nff + r.nff]
          ELSE AllTiles(s, parts, tiles, cd, comps, k + 1, npk + r.npk, lenient, nff + r.nff)

\* Streams on which the library's packet structure is the standard's (see the header comment): one tile, default
\* precincts, and no empty sub-band at any resolution of any component.
PlainStructure(s) ==
  LET w == MainHeader(s, 3, <<>>)
      segs == w.segs
      za == segs[CHOOSE k \in SegsOf(segs, SIZ) : TRUE][2]
      ca == segs[CHOOSE k \in SegsOf(segs, COD) : TRUE][2]
      csiz == U16(s, za + 34)
      xsiz == U32(s, za + 2)  ysiz == U32(s, za + 6)  xo == U32(s, za + 10)  yo == U32(s, za + 14)
      xt == U32(s, za + 18)  yt == U32(s, za + 22)  xto == U32(s, za + 26)  yto == U32(s, za + 30)
      nl == s[ca + 5]
      t == [x0 |-> xo, y0 |-> yo, x1 |-> xsiz, y1 |-> ysiz]
  IN /\ s[ca] % 2 = 0
     /\ CeilDivZ(xsiz - xto, xt) * CeilDivZ(ysiz - yto, yt) = 1
     /\ \A c \in 1..csiz : LET tc == TileComp(t, s[za + 37 + 3 * (c - 1)], s[za + 38 + 3 * (c - 1)]) IN
          \A r \in 0..nl : \A b \in 1..Len(BandsOf(r)) : LET bd == Band(tc, nl, r, BandsOf(r)[b]) IN bd.x1 > bd.x0 /\ bd.y1 > bd.y0

ReadPackets(s, lenient) ==
  LET w == MainHeader(s, 3, <<>>)
      segs == w.segs
      has(m) == SegsOf(segs, m) # {}
      za == segs[CHOOSE k \in SegsOf(segs, SIZ) : TRUE][2]
      ca == segs[CHOOSE k \in SegsOf(segs, COD) : TRUE][2]
      csiz == U16(s, za + 34)
      xsiz == U32(s, za + 2)  ysiz == U32(s, za + 6)  xo == U32(s, za + 10)  yo == U32(s, za + 14)
      xt == U32(s, za + 18)  yt == U32(s, za + 22)  xto == U32(s, za + 26)  yto == U32(s, za + 30)
      ntx == CeilDivZ(xsiz - xto, xt)  nty == CeilDivZ(ysiz - yto, yt)
      scod == s[ca]  nl == s[ca + 5]
      cd == [nl |-> nl, layers |-> U16(s, ca + 2), prog |-> s[ca + 1], xcb |-> s[ca + 6] + 2, ycb |-> s[ca + 7] + 2, style |-> s[ca + 8],
             pp |-> [r \in 1..(nl + 1) |-> IF scod % 2 = 1 THEN <<s[ca + 9 + r] % 16, s[ca + 9 + r] \div 16>> ELSE <<15, 15>>],
             sop |-> (scod \div 2) % 2 = 1, eph |-> (scod \div 4) % 2 = 1]
      comps == [c \in 1..csiz |-> <<s[za + 37 + 3 * (c - 1)], s[za + 38 + 3 * (c - 1)]>>]
      tiles == [k \in 1..(ntx * nty) |-> LET p == (k - 1) % ntx  q == (k - 1) \div ntx IN
                  [x0 |-> Max(xto + p * xt, xo), y0 |-> Max(yto + q * yt, yo), x1 |-> MinI(xto + (p + 1) * xt, xsiz), y1 |-> MinI(yto + (q + 1) * yt, ysiz)]]
      tp == TileParts(s, w.next, <<>>)
  IN IF has(CAP) \/ has(COC) \/ has(QCC) \/ has(POC) \/ has(RGN) \/ has(PPM) \/ (cd.style \div 64) % 2 = 1
     THEN [ok |-> TRUE, why |-> "skip", npk |-> 0, nff |-> 0]
     ELSE IF cd.prog > 4 THEN [ok |-> FALSE, why |-> "unknown progression order", npk |-> 0, nff |-> 0]
     ELSE IF \E r \in 2..(nl + 1) : cd.pp[r][1] = 0 \/ cd.pp[r][2] = 0 THEN [ok |-> FALSE, why |-> "precinct exponent 0 above resolution 0", npk |-> 0, nff |-> 0]
     ELSE IF ~tp.ok THEN [ok |-> FALSE, why |-> tp.why, npk |-> 0, nff |-> 0]
     ELSE IF \E k \in 1..Len(tp.parts) : tp.parts[k].dataA - (tp.parts[k].dataB + 1 - tp.parts[k].psot) # 14
          THEN [ok |-> TRUE, why |-> "skip", npk |-> 0, nff |-> 0]                  \* tile-part headers carry marker segments (COD/QCD/PPT...): out of scope
     ELSE AllTiles(s, tp.parts, tiles, cd, comps, 1, 0, lenient, 0)
=============================================================================
