SPECIFICATION Spec
CONSTANTS
  Vals = {0, 1, 40}
  K = 3
  Styles = {0, 1, 4, 5, 10, 32, 63}
  Shapes <- ShapesQ
INVARIANTS RoundTrip NoMarkers SegmentsCover
CHECK_DEADLOCK FALSE
