------------------------------ MODULE MqTrace ------------------------------
(***************************************************************************)
(* Trace specification for the MQ part of C20: the real MQEncoder and      *)
(* MQDecoder (registers read through the verif hook) are stepped against   *)
(* the Annex C machine, one TLC state per coded decision.                  *)
(* Event "mq": n contexts, d[], x[] (decision, context per step), encoder  *)
(* registers after each step ea[], ec[], ect[], ebp[], context ei[], em[]; *)
(* out[] = Flush(); decoder decisions dd[] and registers da[], dch[], dcl[],*)
(* dct[], dbp[], di[], dm[].                                               *)
(***************************************************************************)
EXTENDS MQ, Json
CONSTANT TraceFile
Tr == ndJsonDeserialize(TraceFile)
VARIABLES l, k, ph, es, ds, nacc, nsteps, bad
tvars == <<l, k, ph, es, ds, nacc, nsteps, bad>>
E == Tr[l]
Ctxs == 0..(E.n - 1)

Reject(r) == PrintT("@@REJECT|" \o ToString(E.scn) \o "|" \o ToString(E.k) \o "|C20/mq/" \o r \o "|step " \o ToString(k) \o " of " \o ToString(Len(E.d))
                    \o " n=" \o ToString(E.n) \o " bias=" \o ToString(E.bias))
Init == l = 1 /\ k = 0 /\ ph = "idle" /\ es = <<>> /\ ds = <<>> /\ nacc = 0 /\ nsteps = 0 /\ bad = FALSE
Consume == l' = l + 1 /\ k' = 0 /\ ph' = "idle" /\ es' = <<>> /\ ds' = <<>>

EncOK(s) == /\ s.a = E.ea[k + 1] /\ s.c = E.ec[k + 1] /\ s.ct = E.ect[k + 1] /\ BP(s) = E.ebp[k + 1]
            /\ s.I[E.x[k + 1]] = E.ei[k + 1] /\ s.M[E.x[k + 1]] = E.em[k + 1]
DecOK(s) == /\ s.d = E.dd[k + 1] /\ s.a = E.da[k + 1] /\ s.ch = E.dch[k + 1] /\ s.cl = E.dcl[k + 1] /\ s.ct = E.dct[k + 1]
            /\ s.I[E.x[k + 1]] = E.di[k + 1] /\ s.M[E.x[k + 1]] = E.dm[k + 1]

Step ==
  /\ l <= Len(Tr)
  /\ IF E.ev # "mq" THEN Consume /\ UNCHANGED <<nacc, nsteps, bad>>
     ELSE IF ph = "idle" THEN ph' = "enc" /\ es' = EncInit(Ctxs) /\ k' = 0 /\ UNCHANGED <<l, ds, nacc, nsteps, bad>>
     ELSE IF ph = "enc" /\ k < Len(E.d)
          THEN LET s1 == Encode(es, E.d[k + 1], E.x[k + 1]) IN
               IF EncOK(s1) THEN es' = s1 /\ k' = k + 1 /\ nsteps' = nsteps + 1 /\ UNCHANGED <<l, ph, ds, nacc, bad>>
               ELSE Reject("encoder registers differ from Annex C") /\ Consume /\ UNCHANGED <<nacc, nsteps>> /\ bad' = TRUE
     ELSE IF ph = "enc"
          THEN IF Flush(es) # E.out THEN Reject("flushed bytes differ from Annex C") /\ Consume /\ UNCHANGED <<nacc, nsteps>> /\ bad' = TRUE
               ELSE IF ~NoMarker(E.out) THEN Reject("marker code in MQ output") /\ Consume /\ UNCHANGED <<nacc, nsteps>> /\ bad' = TRUE
               ELSE ph' = "dec" /\ ds' = DecInit(E.out, Ctxs) /\ k' = 0 /\ UNCHANGED <<l, es, nacc, nsteps, bad>>
     ELSE IF k < Len(E.d)
          THEN LET s1 == Decode(E.out, ds, E.x[k + 1]) IN
               IF s1.d # E.d[k + 1] THEN Reject("Annex C decoder does not return the encoded decision") /\ Consume /\ UNCHANGED <<nacc, nsteps>> /\ bad' = TRUE
               ELSE IF ~DecOK(s1) THEN Reject("decoder decision or registers differ from Annex C") /\ Consume /\ UNCHANGED <<nacc, nsteps>> /\ bad' = TRUE
               ELSE ds' = s1 /\ k' = k + 1 /\ nsteps' = nsteps + 1 /\ UNCHANGED <<l, ph, es, nacc, bad>>
     ELSE Consume /\ nacc' = nacc + 1 /\ UNCHANGED <<nsteps, bad>>
Finish == l = Len(Tr) + 1 /\ PrintT("@@ACCEPT|" \o ToString(nacc)) /\ PrintT("@@INFO|steps=" \o ToString(nsteps))
          /\ PrintT("@@DONE|" \o ToString(Len(Tr))) /\ l' = l + 1 /\ UNCHANGED <<k, ph, es, ds, nacc, nsteps, bad>>
TraceSpec == Init /\ [][Step \/ Finish]_tvars
=============================================================================
