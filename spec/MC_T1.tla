------------------------------- MODULE MC_T1 -------------------------------
(***************************************************************************)
(* Bounded model of the block coder (T1 + MQ): for every block shape in    *)
(* Shapes, orientation, style in Styles and every coefficient assignment   *)
(* from Vals on the first K scan positions (a fixed pattern on the rest),  *)
(* DecodeBlock(EncodeBlock(x)) = x, every codeword segment obeys the       *)
(* marker-avoidance rule of C16, and the segmentation symbols decode.      *)
(***************************************************************************)
EXTENDS T1
CONSTANTS Vals, K, Styles
ValsT == {-40, -1, 0, 1, 2, 40}
ShapesQ == {<<1, 1>>, <<2, 2>>, <<3, 5>>, <<4, 4>>, <<2, 9>>}
ShapesT == {<<1, 1>>, <<1, 4>>, <<2, 2>>, <<3, 5>>, <<4, 4>>, <<2, 9>>, <<5, 8>>}
CONSTANT Shapes
VARIABLES phase, G, src
vars == <<phase, G, src>>
Rest == <<0, 0, 5, 0, -1, 0, 0, 0, 0, 37, 0, 0, -2, 0, 0, 0, 1, 0, 0, 0, 0, 0, 0, -600, 0, 0, 3>>
Init == phase = "shape" /\ G = <<>> /\ src = <<>>
Shape == /\ phase = "shape"
         /\ \E sh \in Shapes, o \in 0..3, st \in Styles : G' = [w |-> sh[1], h |-> sh[2], orient |-> o, style |-> st]
         /\ phase' = "fill" /\ UNCHANGED src
Fill == /\ phase = "fill"
        /\ \E f \in [1..(IF G.w * G.h < K THEN G.w * G.h ELSE K) -> Vals] :
             src' = [i \in 1..(G.w * G.h) |-> IF i <= K THEN f[i] ELSE Rest[((i * 7) % Len(Rest)) + 1]]
        /\ phase' = "done" /\ UNCHANGED G
Next == Shape \/ Fill
Spec == Init /\ [][Next]_vars

RoundTrip == phase = "done" =>
  LET e == EncodeBlock(G, src)  d == DecodeBlock(G, e.P, e.segs) IN d.ok /\ d.val = src
\* C16 clause on every MQ codeword segment
NoMarkers == phase = "done" =>
  LET e == EncodeBlock(G, src) IN \A k \in 1..Len(e.segs) : IsRaw(G.style, e.segs[k].first) \/ NoMarker(e.segs[k].bytes)
SegmentsCover == phase = "done" =>
  LET e == EncodeBlock(G, src) IN
  e.P > 0 => /\ e.segs[1].first = 0 /\ e.segs[Len(e.segs)].last = 3 * e.P - 3
             /\ \A k \in 1..(Len(e.segs) - 1) : e.segs[k + 1].first = e.segs[k].last + 1
=============================================================================
