SPECIFICATION Spec
CONSTANTS
  Alphabet = {0, 1, 255}
  MaxLen = 10
  MaxPkt = 4
INVARIANTS RoundTrip PacketLimit NoNop PendingBounded TypeOK
CHECK_DEADLOCK FALSE
