------------------------------ MODULE IrrTrace ------------------------------
(***************************************************************************)
(* Trace specification for C12: irreversible (9-7) single-tile round trips *)
(* without a rate target.  The per-sample bound is computed from the QCD   *)
(* and COD of the emitted codestream (J2kQuant); decoded samples must stay *)
(* inside the declared range; geometry, precision, signedness identical.   *)
(***************************************************************************)
EXTENDS J2kQuant, Json
CONSTANT TraceFile
Tr == ndJsonDeserialize(TraceFile)
VARIABLES l, cur, nacc
tvars == <<l, cur, nacc>>
E == Tr[l]
Abs(x) == IF x < 0 THEN -x ELSE x
SVal(v, p) == LET m == v % (2^p) IN IF m >= 2^(p - 1) THEN m - 2^p ELSE m
Val(v, cfg) == IF cfg.signed THEN SVal(v, cfg.p) ELSE v

\* fixed rounding allowance: 3 grey levels, plus 2^(P-13) at 16 bits for single-precision float arithmetic
Allow256(p) == 256 * (3 + (IF p > 13 THEN 2^(p - 13) ELSE 0))

DecReason ==
  IF E.err # "" THEN "decode error"
  ELSE IF E.geom.w # cur.cfg.w \/ E.geom.h # cur.cfg.h \/ E.geom.c # cur.cfg.c \/ E.geom.p # cur.cfg.p \/ (E.geom.signed = 1) # cur.cfg.signed THEN "geometry differs"
  ELSE IF Len(E.out) # Len(cur.src) THEN "sample count differs"
  ELSE LET h == WalkJ2k(cur.stream) IN
       IF ~h.ok THEN "stream not well-formed: " \o h.why
       ELSE IF h.reversible THEN "stream declares the reversible transform"
       ELSE LET c == cur.cfg.c  p == cur.cfg.p
                b == Bounds256(Qcd(cur.stream), h.levels, p, c, h.mct = 1, Allow256(p))
                lo == IF cur.cfg.signed THEN -(2^(p - 1)) ELSE 0
                hi == IF cur.cfg.signed THEN 2^(p - 1) - 1 ELSE 2^p - 1
            IN IF \E i \in 1..Len(cur.src) : Val(E.out[i], cur.cfg) < lo \/ Val(E.out[i], cur.cfg) > hi \/ E.out[i] >= 2^(IF p <= 8 THEN 8 ELSE 16) THEN "decoded sample outside the declared range"
               ELSE IF \E i \in 1..Len(cur.src) : 256 * Abs(Val(E.out[i], cur.cfg) - Val(cur.src[i], cur.cfg)) > b[((i - 1) % c) + 1] THEN "error exceeds the declared-quantisation bound"
               ELSE "ok"
Reason == CASE E.ev = "enc" -> (IF E.err # "" THEN "encode error" ELSE "ok") [] E.ev = "dec" -> DecReason [] OTHER -> "ok"
\* discriminators of root-caused defect classes.  "planes>25": the stream's own QCD asks for more than 25 magnitude
\* bit-planes in some sub-band (16-bit input, high quality, several levels); the encoder carries quantised coefficients
\* as int32 with 6 fractional bits and overflows.
Disc(cfg) == IF cfg.levels = 0 THEN "levels=0"
             ELSE IF cur.stream # <<>> /\ MaxPlanes(Qcd(cur.stream), cfg.levels) > 25 THEN "planes>25"
             ELSE IF cfg.p = 16 THEN "P=16" ELSE "-"

Init == l = 1 /\ cur = [cfg |-> <<>>, src |-> <<>>, stream |-> <<>>] /\ nacc = 0
Step ==
  /\ l <= Len(Tr) /\ l' = l + 1
  /\ IF E.ev \notin {"enc", "dec"} THEN UNCHANGED <<cur, nacc>>
     ELSE LET r == Reason IN
          IF r = "ok" THEN /\ nacc' = nacc + (IF E.ev = "dec" THEN 1 ELSE 0)
                           /\ cur' = IF E.ev = "enc" THEN [cfg |-> E.cfg, src |-> E.src, stream |-> E.stream] ELSE cur
          ELSE LET cfg == IF E.ev = "enc" THEN E.cfg ELSE cur.cfg IN
               /\ PrintT("@@REJECT|" \o ToString(E.scn) \o "|" \o ToString(E.k) \o "|C12/bound/" \o r \o "/" \o Disc(cfg) \o "|" \o ToString(cfg) \o " err=" \o E.err)
               /\ UNCHANGED <<cur, nacc>>
Finish == l = Len(Tr) + 1 /\ PrintT("@@ACCEPT|" \o ToString(nacc)) /\ PrintT("@@DONE|" \o ToString(Len(Tr))) /\ l' = l + 1 /\ UNCHANGED <<cur, nacc>>
TraceSpec == Init /\ [][Step \/ Finish]_tvars
=============================================================================
