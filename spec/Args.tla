-------------------------------- MODULE Args --------------------------------
(***************************************************************************)
(* Property C17: the decision table "which argument tuples can an encoder  *)
(* represent" and the generator of boundary tuples.                        *)
(*                                                                         *)
(* Representable(a) is written from the property statement and the         *)
(* documented limits of each format: positive dimensions; at most 65535    *)
(* for the formats with 16-bit size fields (JPEG, JPEG-LS); component      *)
(* count and bit depth supported by the process; a pixel buffer of at      *)
(* least width x height x components x bytes-per-sample; quality 1..100;   *)
(* NEAR 0..min(255, MAXVAL/2); predictor 0..7 (0 = automatic); JPEG 2000:  *)
(* 1..4 components, depth 1..16, 0..6 levels, code-block sides powers of   *)
(* two in 4..1024 with area <= 4096, at least one layer.                   *)
(* The outcome relation is in ArgsTrace.                                   *)
(***************************************************************************)
EXTENDS Integers, Sequences, TLC, Json

Encoders == {"baseline", "extended", "jpegll", "sv1", "jls", "jlsnear", "j2k"}
Bytes(p) == IF p <= 8 THEN 1 ELSE 2
Pos(x) == IF x > 0 THEN x ELSE 0
\* baseline.Encode has no bit-depth argument: it is an 8-bit process whatever the tuple's p says
Required(a) == Pos(a.w) * Pos(a.h) * Pos(a.c) * (IF a.enc = "baseline" THEN 1 ELSE Bytes(a.p))
IsPow2(n) == n \in {1, 2, 4, 8, 16, 32, 64, 128, 256, 512, 1024, 2048}

DimsOK(a, lim) == a.w >= 1 /\ a.h >= 1 /\ a.w <= lim /\ a.h <= lim
Representable(a) ==
  /\ a.buflen >= Required(a)
  /\ CASE a.enc = "baseline" -> DimsOK(a, 65535) /\ a.c \in {1, 3} /\ a.q \in 1..100
       [] a.enc = "extended" -> DimsOK(a, 65535) /\ a.q \in 1..100 /\ ((a.p = 8 /\ a.c \in {1, 3}) \/ (a.p = 12 /\ a.c = 1))
       [] a.enc = "jpegll"   -> DimsOK(a, 65535) /\ a.c \in {1, 3} /\ a.p \in 2..16 /\ a.pred \in 0..7
       [] a.enc = "sv1"      -> DimsOK(a, 65535) /\ a.c \in {1, 3} /\ a.p \in 2..16
       [] a.enc = "jls"      -> DimsOK(a, 65535) /\ a.c \in {1, 3} /\ a.p \in 2..16
       [] a.enc = "jlsnear"  -> DimsOK(a, 65535) /\ a.c \in {1, 3} /\ a.p \in 2..16 /\ a.near >= 0 /\ a.near <= 255 /\ 2 * a.near <= 2^a.p - 1
       [] a.enc = "j2k"      -> DimsOK(a, 2147483647) /\ a.c \in 1..4 /\ a.p \in 1..16 /\ a.levels \in 0..6
                                /\ IsPow2(a.cbw) /\ IsPow2(a.cbh) /\ a.cbw \in 4..1024 /\ a.cbh \in 4..1024 /\ a.cbw * a.cbh <= 4096
                                /\ a.layers >= 1
       [] OTHER -> FALSE

(***************************************************************************)
(* Generator: nominal tuple, every single off-nominal argument, every pair *)
(***************************************************************************)
Nominal(enc) == [enc |-> enc, w |-> 5, h |-> 4, c |-> 1, p |-> 8, q |-> 75, near |-> IF enc = "jlsnear" THEN 2 ELSE 0,
                 pred |-> IF enc = "jpegll" THEN 4 ELSE 0, levels |-> 2, cbw |-> 16, cbh |-> 16, layers |-> 1, buf |-> "req"]
DimVals == {-1, 0, 1, 2, 255, 256, 257, 32768, 65535, 65536, 65537}
FieldVals(enc, f) ==
  CASE f = "w" -> DimVals [] f = "h" -> DimVals
    [] f = "c" -> {-1, 0, 1, 2, 3, 4, 5}
    [] f = "p" -> IF enc = "baseline" THEN {8} ELSE {-1, 0, 1, 2, 7, 8, 9, 11, 12, 13, 15, 16, 17, 32}
    [] f = "q" -> IF enc \in {"baseline", "extended"} THEN {-1, 0, 1, 50, 100, 101, 255} ELSE {75}
    [] f = "near" -> IF enc = "jlsnear" THEN {-1, 0, 1, 2, 127, 128, 255, 256} ELSE {0}
    [] f = "pred" -> IF enc = "jpegll" THEN {-1, 0, 1, 7, 8} ELSE {0}
    [] f = "levels" -> IF enc = "j2k" THEN {-1, 0, 5, 6, 7, 33} ELSE {2}
    [] f = "cbw" -> IF enc = "j2k" THEN {0, 2, 3, 4, 5, 64, 128, 1024, 2048} ELSE {16}
    [] f = "cbh" -> IF enc = "j2k" THEN {0, 2, 3, 4, 6, 64, 1024, 2048} ELSE {16}
    [] f = "layers" -> IF enc = "j2k" THEN {-1, 0, 1, 3} ELSE {1}
    [] f = "buf" -> {"zero", "one", "req-1", "req", "req+1", "row", "half"}
    [] OTHER -> {}
Fields == <<"w", "h", "c", "p", "q", "near", "pred", "levels", "cbw", "cbh", "layers", "buf">>
\* keep the big dimensions thin so that memory stays small
Sane(a) == (a.w > 300 => a.h <= 2) /\ (a.h > 300 => a.w <= 2) /\ (a.w > 300 \/ a.h > 300 => a.c <= 3)
=============================================================================
