-------------------------------- MODULE MC_MQ --------------------------------
(***************************************************************************)
(* Exhaustive model checking of the MQ coder design: every sequence of     *)
(* (decision, context) pairs up to MaxLen over Ctxs, optionally after a    *)
(* fixed warm-up prefix that drives the coder next to carry / 0xFF states. *)
(***************************************************************************)
EXTENDS MQ
CONSTANTS MaxLen, Ctxs, Prefix       \* Prefix: sequence of <<d, cx>> coded before the explored suffix
VARIABLES es, seq
NoPrefix == <<>>
\* warm-up prefixes: long one-sided runs push the states to small Qe and fill C with 1-bits (carry / 0xFF territory)
RunPrefix(n, d) == [k \in 1..n |-> <<d, 0>>]
Prefix40 == RunPrefix(40, 0) \o <<<<1, 0>>>> \o RunPrefix(23, 0)
Prefix90 == RunPrefix(30, 1) \o RunPrefix(30, 0) \o <<<<1, 1>>, <<0, 1>>>> \o RunPrefix(28, 1)
vars == <<es, seq>>

RECURSIVE Warm(_, _)
Warm(s, k) == IF k > Len(Prefix) THEN s ELSE Warm(Encode(s, Prefix[k][1], Prefix[k][2]), k + 1)
Init == es = Warm(EncInit(Ctxs), 1) /\ seq = <<>>
Next == /\ Len(seq) < MaxLen
        /\ \E d \in {0, 1}, x \in Ctxs : es' = Encode(es, d, x) /\ seq' = Append(seq, <<d, x>>)
Spec == Init /\ [][Next]_vars

All == Prefix \o seq
Bytes == Flush(es)
RoundTrip == DecodeAll(Bytes, DecInit(Bytes, Ctxs), [k \in 1..Len(All) |-> All[k][2]], 1, <<>>) = [k \in 1..Len(All) |-> All[k][1]]
Stuffing == NoMarker(Bytes)
Registers == es.a >= 32768 /\ es.a < 65536 /\ es.c >= 0 /\ es.c < 268435456 /\ es.ct \in 1..12
=============================================================================
