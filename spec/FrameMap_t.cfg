SPECIFICATION Spec
CONSTANTS
  Frames = {"A", "B", "C"}
  ParamIds = {"nil", "def", "alt"}
  MaxOps = 2
  MaxSeq = 3
INVARIANTS OneToOneInOrder HistoryFree Emit
CHECK_DEADLOCK FALSE
