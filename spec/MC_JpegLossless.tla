-------------------------- MODULE MC_JpegLossless --------------------------
(***************************************************************************)
(* Model checking of the T.81 lossless machines: for every image in scope, *)
(* every predictor and the given Huffman table, the reference decoder run  *)
(* on the reference encoder's stream returns the image; plus the exhaustive*)
(* category/magnitude round trip over all 65536 differences (constant).    *)
(***************************************************************************)
EXTENDS JpegLossless
CONSTANTS MaxW, MaxH, P, Comps
VARIABLES img, hd, phase, es, ds, bs
vars == <<img, hd, phase, es, ds, bs>>

StdBits == <<0, 1, 5, 1, 1, 1, 1, 1, 1, 1, 1, 1, 1, 1, 0, 0>>
StdTab == MkTable(StdBits, [i \in 1..17 |-> i - 1])

MkHd(w, h, nf, p, ss) ==
  [ok |-> TRUE, why |-> "", sof |-> TRUE, sofok |-> TRUE, sosok |-> TRUE, p |-> p, h |-> h, w |-> w, nf |-> nf,
   cid |-> [k \in 1..nf |-> k], hv |-> [k \in 1..nf |-> 17], ns |-> nf, scs |-> [k \in 1..nf |-> k],
   td |-> [k \in 1..nf |-> 0], ss |-> ss, pt |-> 0, scan |-> 0, ri |-> 0,
   tab |-> [t \in 0..3 |-> StdTab], def |-> [t \in 0..3 |-> TRUE]]

Init ==
  \E w \in 1..MaxW, h \in 1..MaxH, ss \in 1..7 :
    /\ hd = MkHd(w, h, Comps, P, ss)
    /\ img \in [1..(w * h * Comps) -> 0..(2^P - 1)]
    /\ phase = "enc" /\ es = InitState(hd) /\ ds = InitState(hd) /\ bs = <<>>
Next ==
  \/ /\ phase = "enc" /\ ~Done(hd, es) /\ es' = EncStep(hd, es, img) /\ UNCHANGED <<img, hd, phase, ds, bs>>
  \/ /\ phase = "enc" /\ Done(hd, es) /\ phase' = "dec"
     /\ bs' = Unstuff(Stuff(es.bits, 1, <<>>) \o <<255, 217>>, 1, <<>>) /\ UNCHANGED <<img, hd, es, ds>>
  \/ /\ phase = "dec" /\ ~Done(hd, ds) /\ ds.pos >= 0 /\ ds' = DecStep(hd, bs, ds) /\ UNCHANGED <<img, hd, phase, es, bs>>
  \/ /\ phase = "dec" /\ (Done(hd, ds) \/ ds.pos < 0) /\ phase' = "done" /\ UNCHANGED <<img, hd, es, ds, bs>>
Spec == Init /\ [][Next]_vars

RoundTrip == phase = "done" => ds.pos >= 0 /\ ds.out = img /\ es.out = img /\ Len(bs) - (ds.pos - 1) < 8
TableOK == ValidTable(StdTab)

\* all 65536 differences through category + magnitude coding (F.1.2.1, F.2.2.1); evaluated once
AllDiffs == \A d \in -32767..32768 :
   LET s == Cat(d) IN
   /\ s \in 0..16
   /\ (s = 0) = (d = 0) /\ (s = 16) = (d = 32768)
   /\ (s \in 1..15 => Extend(BitsVal(ExtraBits(d, s), 1, s, 0), s) = d /\ Len(ExtraBits(d, s)) = s)
   /\ (s \in {0, 16} => ExtraBits(d, s) = <<>>)
ASSUME AllDiffs
=============================================================================
