----------------------------- MODULE JpegSeqGen -----------------------------
(***************************************************************************)
(* Reverse direction of C15: the reference baseline ENCODER machine of     *)
(* module JpegSeq produces conformant streams over                          *)
(*   size 1..MaxDim x 1..MaxDim, grey / YCbCr 4:4:4, 4:2:2, 4:2:0, 4:4:0,   *)
(*   restart interval none / 1 / 2 / 3 / one MCU row / beyond the scan,     *)
(*   Huffman tables: K.3-K.6, flat full tables, tables holding only the    *)
(*   AC symbols in use; table destinations split / shared / swapped,       *)
(*   DHT and DQT packed in one segment or one segment per table,           *)
(*   none / JFIF APP0 / Adobe APP14 (transform 1) + COM, component ids,    *)
(*   block contents: DC-only (expected image computed here), sparse with   *)
(*   ZRL runs and coefficient 63 (no EOB), dense low frequencies.          *)
(* Run with -simulate: every behaviour is one stream.                      *)
(***************************************************************************)
EXTENDS JpegSeq, Json, Randomization
CONSTANTS MaxDim
M == INSTANCE Markers

VARIABLES phase, variant, f, draws, coef, qt, tabs, es
vars == <<phase, variant, f, draws, coef, qt, tabs, es>>

Init == phase = "pick" /\ variant = <<>> /\ f = <<>> /\ draws = <<>> /\ coef = <<>> /\ qt = <<>> /\ tabs = <<>> /\ es = <<>>

Pick1 ==
  /\ phase = "pick"
  /\ variant' = [w |-> RandomElement(1..MaxDim), h |-> RandomElement(1..MaxDim), nf |-> RandomElement({1, 3, 3}),
                 samp |-> RandomElement({"444", "422", "420", "440"}), rik |-> RandomElement(0..8),
                 tab |-> RandomElement({"std", "flat", "used"}), ids |-> RandomElement({"split", "shared", "swapped"}),
                 cidBase |-> RandomElement({1, 1, 0, 7}), app |-> RandomElement(0..3), mode |-> RandomElement({"flat", "sparse", "dense"}),
                 pack |-> RandomElement({"one", "many"}), driFirst |-> RandomElement({TRUE, FALSE}), qdc |-> RandomElement({8, 16, 3}),
                 qac |-> RandomElement({1, 2})]
  /\ phase' = "pick2" /\ UNCHANGED <<f, draws, coef, qt, tabs, es>>

Frame(v) ==
  LET nf == v.nf
      hy == IF nf = 1 THEN 1 ELSE IF v.samp \in {"422", "420"} THEN 2 ELSE 1
      vy == IF nf = 1 THEN 1 ELSE IF v.samp \in {"420", "440"} THEN 2 ELSE 1
      sel == CASE v.ids = "split" -> <<0, 1, 1>> [] v.ids = "shared" -> <<0, 0, 0>> [] OTHER -> <<1, 0, 0>>
      f0 == [w |-> v.w, h |-> v.h, nf |-> nf, hs |-> [i \in 1..nf |-> IF i = 1 THEN hy ELSE 1], vs |-> [i \in 1..nf |-> IF i = 1 THEN vy ELSE 1],
             tq |-> [i \in 1..nf |-> sel[i]], td |-> [i \in 1..nf |-> sel[i]], ta |-> [i \in 1..nf |-> sel[i]],
             cid |-> [i \in 1..nf |-> v.cidBase + i - 1], ri |-> 0]
      ri == CASE v.rik = 1 -> 1 [] v.rik = 2 -> 2 [] v.rik = 3 -> 3 [] v.rik = 4 -> McuX(f0) [] v.rik = 5 -> NMcu(f0) + 5 [] OTHER -> 0
  IN [f0 EXCEPT !.ri = ri]

AcVals == {-500, -100, -20, -7, -3, -2, -1, 1, 2, 3, 7, 20, 100, 500}
Pick2 ==
  /\ phase = "pick2"
  /\ f' = Frame(variant)
  /\ draws' = [i \in 1..f'.nf |-> [by \in 1..BlocksY(f', i) |-> [bx \in 1..BlocksX(f', i) |->
                 [dc |-> RandomElement((-(1100 \div variant.qdc))..(1100 \div variant.qdc)), n |-> RandomElement(0..3),
                  p1 |-> RandomElement(2..64), v1 |-> RandomElement(AcVals), p2 |-> RandomElement({2, 3, 18, 19, 40, 63, 64}),
                  v2 |-> RandomElement({-1, 1, 2}), lo |-> [k \in 2..12 |-> RandomElement(-3..3)]]]]]
  /\ phase' = "pick3" /\ UNCHANGED <<variant, coef, qt, tabs, es>>

\* tables holding exactly the symbols in SetOfSyms, all with the same (shortest possible) code length
RECURSIVE SortedSeq(_, _)
SortedSeq(S, acc) == IF S = {} THEN acc ELSE LET m == CHOOSE m \in S : \A u \in S : m <= u IN SortedSeq(S \ {m}, Append(acc, m))
UniformTable(S) ==
  LET n == Cardinality(S)
      L == CHOOSE L \in 1..16 : 2^L - 1 >= n /\ (L = 1 \/ 2^(L - 1) - 1 < n)
  IN MkTable([k \in 1..16 |-> IF k = L THEN n ELSE 0], SortedSeq(S, <<>>))
RECURSIVE UsedAc(_, _, _)
UsedAc(cf, blks, acc) == IF blks = <<>> THEN acc ELSE UsedAc(cf, Tail(blks), acc \cup AcSyms(cf[Head(blks)[1]][Head(blks)[2]][Head(blks)[3]], 2, 0, {}))

Pick3 ==
  /\ phase = "pick3"
  /\ LET v == variant
         blk(d) == [k \in 1..64 |->
                      IF k = 1 THEN d.dc
                      ELSE CASE v.mode = "flat" -> 0
                             [] v.mode = "sparse" -> (IF d.n >= 1 /\ k = d.p1 THEN d.v1 ELSE IF d.n >= 2 /\ k = d.p2 THEN d.v2 ELSE 0)
                             [] OTHER -> (IF k <= 12 THEN d.lo[k] ELSE IF d.n = 3 /\ k = 64 THEN d.v2 ELSE 0)]
         cf == [i \in 1..f.nf |-> [by \in 1..BlocksY(f, i) |-> [bx \in 1..BlocksX(f, i) |-> blk(draws[i][by][bx])]]]
         all == ScanBlocks(f, 0, <<>>)
         usedBy(t) == UsedAc(cf, SelectSeq(all, LAMBDA b : f.ta[b[1]] = t), {})
         dcFlat == MkTable(<<0, 0, 0, 12, 0, 0, 0, 0, 0, 0, 0, 0, 0, 0, 0, 0>>, [k \in 1..12 |-> k - 1])
         acFlat == UniformTable(AcSymbols)
         acUsed(t) == LET S == usedBy(t) IN IF S = {} THEN UniformTable({0}) ELSE UniformTable(S)
     IN /\ coef' = cf
        /\ qt' = [t \in 0..1 |-> [k \in 1..64 |-> IF k = 1 THEN v.qdc ELSE v.qac + t]]
        /\ tabs' = CASE v.tab = "std" -> [dc |-> [t \in 0..1 |-> IF t = 0 THEN StdDcLum ELSE StdDcChr], ac |-> [t \in 0..1 |-> IF t = 0 THEN StdAcLum ELSE StdAcChr]]
                     [] v.tab = "flat" -> [dc |-> [t \in 0..1 |-> dcFlat], ac |-> [t \in 0..1 |-> acFlat]]
                     [] OTHER -> [dc |-> [t \in 0..1 |-> dcFlat], ac |-> [t \in 0..1 |-> acUsed(t)]]
  /\ es' = EncInit(f) /\ phase' = "enc" /\ UNCHANGED <<variant, f, draws>>

Enc == /\ phase = "enc" /\ ~EncDone(f, es) /\ es' = EncMcu(f, tabs, coef, es) /\ UNCHANGED <<phase, variant, f, draws, coef, qt, tabs>>

UsedT(sel) == {sel[i] : i \in 1..f.nf}
App == CASE variant.app = 0 -> <<>>
         [] variant.app = 1 -> Seg(224, <<74, 70, 73, 70, 0, 1, 1, 0, 0, 1, 0, 1, 0, 0>>)                                    \* JFIF APP0
         [] variant.app = 2 -> Seg(238, <<65, 100, 111, 98, 101, 0, 100, 0, 0, 0, 0, 1>>)                                     \* Adobe APP14, transform 1 (YCbCr)
         [] OTHER -> Seg(224, <<74, 70, 73, 70, 0, 1, 2, 1, 0, 72, 0, 72, 0, 0>>) \o Seg(254, <<118, 101, 114, 105, 102>>)   \* JFIF 1.02 + COM
RECURSIVE Cat2(_, _, _)
Cat2(S, body(_), acc) == IF S = {} THEN acc ELSE LET t == CHOOSE t \in S : \A u \in S : t <= u IN Cat2(S \ {t}, body, Append(acc, body(t)))
Flatten(ss) == IF ss = <<>> THEN <<>> ELSE LET RECURSIVE F(_, _) F(k, acc) == IF k > Len(ss) THEN acc ELSE F(k + 1, acc \o ss[k]) IN F(1, <<>>)
Packed(m, bodies) == IF variant.pack = "one" THEN Seg(m, Flatten(bodies)) ELSE Flatten([k \in 1..Len(bodies) |-> Seg(m, bodies[k])])
Dqts == Packed(219, Cat2(UsedT(f.tq), LAMBDA t : DqtBody(t, qt[t]), <<>>))
Dhts == Packed(196, Cat2(UsedT(f.td), LAMBDA t : DhtBody(0, t, tabs.dc[t]), <<>>) \o Cat2(UsedT(f.ta), LAMBDA t : DhtBody(1, t, tabs.ac[t]), <<>>))
DriSeg == IF f.ri > 0 THEN Dri(f.ri) ELSE <<>>
Stream == <<255, 216>> \o App \o (IF variant.driFirst THEN DriSeg ELSE <<>>) \o Dqts \o Sof0(f) \o Dhts
          \o (IF variant.driFirst THEN <<>> ELSE DriSeg) \o SosSeq(f) \o EntropyCoded(es) \o <<255, 217>>

Emit == /\ phase = "enc" /\ EncDone(f, es)
        /\ PrintT("@@SCN|" \o ToJson([stream |-> Stream, w |-> f.w, h |-> f.h, c |-> f.nf, samp |-> IF f.nf = 1 THEN "grey" ELSE variant.samp,
                                      ri |-> f.ri, tab |-> variant.tab, ids |-> variant.ids, app |-> variant.app, mode |-> variant.mode,
                                      pack |-> variant.pack, cid |-> variant.cidBase, nrst |-> es.nrst,
                                      exp |-> IF variant.mode = "flat" THEN FlatImage(f, coef, qt) ELSE <<>>]))
        /\ phase' = "done" /\ UNCHANGED <<variant, f, draws, coef, qt, tabs, es>>
Next == Pick1 \/ Pick2 \/ Pick3 \/ Enc \/ Emit
Spec == Init /\ [][Next]_vars

\* every emitted stream passes the T.81 Annex B walker of module Markers and decodes back to its coefficients
TablesValid == phase \in {"enc", "done"} => \A t \in 0..1 : ValidTable(tabs.dc[t]) /\ ValidTable(tabs.ac[t])
SelfWalk == (phase = "enc" /\ EncDone(f, es)) => M!WalkJpeg(Stream).ok
SelfDecode == (phase = "enc" /\ EncDone(f, es)) =>
                LET d == DecScan(f, tabs, EntropyCoded(es)) blks == ScanBlocks(f, 0, <<>>) IN
                /\ Len(d) = Len(blks)
                /\ \A k \in 1..Len(d) : d[k][4] = coef[d[k][1]][d[k][2]][d[k][3]]
=============================================================================
