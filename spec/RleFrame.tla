------------------------------ MODULE RleFrame ------------------------------
(***************************************************************************)
(* DICOM PS3.5 Annex G: the RLE frame.  G.2 byte planes ("the Composite    *)
(* Pixel Code is split into bytes, most significant first"), G.5 header    *)
(* (16 little-endian uint32: segment count, 15 offsets), G.4 even segment  *)
(* padding.  Pure operators over byte sequences; the PackBits reader comes *)
(* from module PackBits.  Written from the standard, not from rle.go.      *)
(***************************************************************************)
EXTENDS Integers, Sequences, TLC
LOCAL INSTANCE PackBits WITH Alphabet <- {}, MaxLen <- 0, MaxPkt <- 128,
     inp <- <<>>, prev <- 0, rep <- 0, lit <- <<>>, out <- <<>>, done <- FALSE

\* frame description: [rows, cols, ba (BitsAllocated), spp, planar]
BytesAlloc(info) == (info.ba - 1) \div 8 + 1
Planes(info)     == BytesAlloc(info) * info.spp
PixelCount(info) == info.rows * info.cols
NativeLen(info)  == Planes(info) * PixelCount(info)

\* 0-based index, in the native little-endian frame, of the byte of pixel p (0-based)
\* that belongs to byte plane s (0-based; planes ordered by sample, then MSB first)
PlaneByteIndex(info, s, p) ==
  LET ba     == BytesAlloc(info)
      sample == s \div ba
      fromMSB == s % ba
      lsbIdx == ba - 1 - fromMSB
  IN IF info.planar = 0
     THEN p * Planes(info) + sample * ba + lsbIdx
     ELSE sample * ba * PixelCount(info) + p * ba + lsbIdx

Plane(info, frame, s) == [p \in 1..PixelCount(info) |-> frame[PlaneByteIndex(info, s, p - 1) + 1]]

U32(s, off) == s[off + 1] + 256 * s[off + 2] + 65536 * s[off + 3] + 16777216 * s[off + 4]

Offsets(stream) == [i \in 1..15 |-> U32(stream, 4 * i)]

\* G.5 / G.4 header validity for a frame with n byte planes
HeaderReason(stream, n) ==
  IF Len(stream) < 64 THEN "shorter than header"
  ELSE IF Len(stream) % 2 # 0 THEN "odd length"
  ELSE IF U32(stream, 0) # n THEN "segment count"
  ELSE LET off == Offsets(stream) IN
    IF off[1] # 64 THEN "first offset not 64"
    ELSE IF \E i \in 1..n : off[i] % 2 # 0 THEN "odd offset"
    ELSE IF \E i \in 1..(n - 1) : off[i] >= off[i + 1] THEN "offsets not ascending"
    ELSE IF off[n] >= Len(stream) THEN "offset out of range"
    ELSE IF \E i \in (n + 1)..15 : off[i] # 0 THEN "unused offset not zero"
    ELSE "ok"

Segment(stream, n, s) ==   \* s is 1-based here
  LET off == Offsets(stream)
      lo  == off[s] + 1
      hi  == IF s < n THEN off[s + 1] ELSE Len(stream)
  IN SubSeq(stream, lo, hi)

\* an independent reader recovers plane s from segment s, using at most one pad byte
SegmentReason(stream, info, frame, s) ==
  LET seg == Segment(stream, Planes(info), s)
      r   == PBReadN(seg, 1, PixelCount(info), <<>>)
  IN IF r[1] # "ok" THEN r[2]
     ELSE IF r[2] # Plane(info, frame, s - 1) THEN "plane bytes differ"
     ELSE IF Len(seg) - (r[3] - 1) > 1 THEN "more than one trailing byte"
     ELSE "ok"

\* first failing reason over all segments, or "ok"
RECURSIVE SegmentsReason(_, _, _, _)
SegmentsReason(stream, info, frame, s) ==
  IF s > Planes(info) THEN "ok"
  ELSE LET r == SegmentReason(stream, info, frame, s)
       IN IF r = "ok" THEN SegmentsReason(stream, info, frame, s + 1) ELSE r

Padded(frame) == IF Len(frame) % 2 = 1 THEN Append(frame, 0) ELSE frame

\* classification of an encoded frame by the packet kinds the reader met (for evidence)
SegPackets(stream, info, s) == Packets(Segment(stream, Planes(info), s), 1, <<>>)
=============================================================================
