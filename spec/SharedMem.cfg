SPECIFICATION Spec
CONSTANTS
  ModelFile = "MODELFILE"
  NProcs = 2
INVARIANTS NoRace StaticObligation Emit
CHECK_DEADLOCK FALSE
