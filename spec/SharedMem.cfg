SPECIFICATION Spec
CONSTANTS
  ModelFile = "MODELFILE"
  NProcs = 2
INVARIANTS Emit NoRace StaticObligation
CHECK_DEADLOCK FALSE
