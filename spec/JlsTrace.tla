------------------------------ MODULE JlsTrace ------------------------------
(***************************************************************************)
(* Trace specification for C14 (and the stepped part of C03/C07): every    *)
(* recorded JPEG-LS stream of the library is decoded by the T.87 decoder   *)
(* MACHINE of module JpegLS, one TLC state per coding step, and the result *)
(* is compared with what the library's own decoders returned.              *)
(* Event "jls": cfg{w,h,c,p,near,api}, src, stream, out (own decoder),     *)
(*   stream2 (the other encoder's bytes, NEAR=0 only, else <<>>),          *)
(*   xout (the other package's decoder on stream, or <<>>), errors.        *)
(* Event "h3": stream produced by the library for the Annex H.3 image.     *)
(***************************************************************************)
EXTENDS JpegLS, Json
CONSTANT TraceFile
Tr == ndJsonDeserialize(TraceFile)
VARIABLES l, mode, ph, ds, nacc, nsteps
tvars == <<l, mode, ph, ds, nacc, nsteps>>
E == Tr[l]

Hd == Header(E.stream)
Pr == DefaultParams(E.cfg.w, E.cfg.h, E.cfg.c, E.cfg.p, E.cfg.near)
\* the unpacked scan bits live in a TLC register: they are an operator of the current line, not state
ScanBits == TLCGet(7)

\* checks made before the stepped decode starts
PreReason ==
  IF E.err # "" THEN "library call failed"
  ELSE IF ~Hd.ok THEN "header: " \o Hd.why
  ELSE IF ~Hd.sofok \/ ~Hd.sosok THEN "header: segment length"
  ELSE IF Hd.w # E.cfg.w \/ Hd.h # E.cfg.h \/ Hd.c # E.cfg.c \/ Hd.p # E.cfg.p THEN "header: frame geometry"
  ELSE IF Hd.near # E.cfg.near THEN "header: NEAR"
  ELSE IF Hd.ns # E.cfg.c \/ Hd.ilv # (IF E.cfg.c = 1 THEN 0 ELSE 2) THEN "header: interleave"
  ELSE IF Hd.lse THEN "header: unexpected LSE"
  ELSE IF E.cfg.near = 0 /\ Len(E.stream2) > 0 /\ E.stream2 # E.stream THEN "lossless and near-lossless(0) encoders differ"
  ELSE IF Len(E.xout) > 0 /\ E.xout # E.out THEN "the two decoders disagree"
  ELSE "ok"

\* checks made when the stepped decode is complete
PostReason ==
  IF ds.pos < 0 THEN "reference decoder ran out of data"
  ELSE IF ds.out # E.out THEN "reference decoder disagrees with library decoder"
  ELSE IF E.cfg.near = 0 /\ ds.out # E.src THEN "reference decoder does not recover the source"
  ELSE IF Len(ScanBits) - (ds.pos - 1) >= 8 + 7 THEN "unread data before EOI"
  ELSE "ok"

Reject(r) == PrintT("@@REJECT|" \o ToString(E.scn) \o "|" \o ToString(E.k) \o "|C14/conformance/" \o r \o "|" \o ToString(E.cfg))

Init == l = 1 /\ mode = "run" /\ ph = "idle" /\ ds = <<>> /\ nacc = 0 /\ nsteps = 0
Consume == l' = l + 1 /\ ph' = "idle" /\ ds' = <<>>

Step ==
  /\ l <= Len(Tr)
  /\ IF E.ev = "reset" THEN Consume /\ mode' = "run" /\ UNCHANGED <<nacc, nsteps>>
     ELSE IF mode = "skip" \/ E.ev \notin {"jls", "h3"} THEN Consume /\ UNCHANGED <<mode, nacc, nsteps>>
     ELSE IF E.ev = "h3"
          THEN IF E.stream = H3Stream THEN Consume /\ nacc' = nacc + 1 /\ UNCHANGED <<mode, nsteps>>
               ELSE Reject("Annex H.3 stream differs") /\ Consume /\ mode' = "skip" /\ UNCHANGED <<nacc, nsteps>>
     ELSE IF ph = "idle"
          THEN LET r == PreReason IN
               IF r # "ok" THEN Reject(r) /\ Consume /\ mode' = "skip" /\ UNCHANGED <<nacc, nsteps>>
               ELSE /\ TLCSet(7, Unpack(SubSeq(E.stream, Hd.scan, Len(E.stream)), 1, FALSE, <<>>))
                    /\ ph' = "dec" /\ ds' = InitState(Pr) /\ UNCHANGED <<l, mode, nacc, nsteps>>
     ELSE IF ~Done(Pr, ds) /\ ds.pos >= 0
          THEN ds' = DecStep(Pr, ScanBits, ds) /\ nsteps' = nsteps + 1 /\ UNCHANGED <<l, mode, ph, nacc>>
     ELSE LET r == PostReason IN
          IF r = "ok" THEN Consume /\ nacc' = nacc + 1 /\ UNCHANGED <<mode, nsteps>>
          ELSE Reject(r) /\ Consume /\ mode' = "skip" /\ UNCHANGED <<nacc, nsteps>>
Finish == l = Len(Tr) + 1 /\ PrintT("@@ACCEPT|" \o ToString(nacc)) /\ PrintT("@@INFO|steps=" \o ToString(nsteps))
          /\ PrintT("@@DONE|" \o ToString(Len(Tr))) /\ l' = l + 1 /\ UNCHANGED <<mode, ph, ds, nacc, nsteps>>
TraceSpec == Init /\ [][Step \/ Finish]_tvars
=============================================================================
