SPECIFICATION Spec
CONSTANTS
  MaxLen = 7
  Ctxs = {0, 1}
  Prefix <- Prefix90
INVARIANTS RoundTrip Stuffing Registers
CHECK_DEADLOCK FALSE
