SPECIFICATION Spec
CONSTANTS
  MaxW = 2
  MaxH = 3
  P = 3
  Nears = {0, 1, 2, 3}
  Comps = 1
  Reset = 3
  BiasLim = 2
INVARIANTS ContextsBounded RunIndexBounded RoundTrip SameStatistics
CHECK_DEADLOCK FALSE
