SPECIFICATION Spec
CONSTANTS
  Sizes <- SizesQ
  Samps = {"444", "422", "420", "440"}
  Ris = {0, 1, 2}
  TabKinds = {"std", "flat"}
INVARIANTS RoundTrip PredReset RstCount Stuffed Traversal
CHECK_DEADLOCK FALSE
