SPECIFICATION Spec
CONSTANTS
  MaxW = 2
  MaxH = 1
  P = 2
  Comps = 3
INVARIANTS RoundTrip TableOK
CHECK_DEADLOCK FALSE
