------------------------------- MODULE MC_Mel -------------------------------
(***************************************************************************)
(* Bounded model of the MEL coder: symbol strings are built from runs      *)
(* (zeros followed by a one, or a trailing open run) whose lengths come    *)
(* from RunLens, so that all 13 states are reached within a few steps.     *)
(*   RoundTrip   Decode(Unpack(Pack(Encode(s)))) = s                        *)
(*   StateRange  k stays in 0..12 and the open run below 2^E[k]             *)
(*   NoMarker    the byte after 0xFF has its top bit clear                  *)
(***************************************************************************)
EXTENDS Mel
CONSTANTS RunLens, MaxRuns
VARIABLES syms, st, nruns
vars == <<syms, st, nruns>>
Init == syms = <<>> /\ st = Enc0 /\ nruns = 0
RECURSIVE Feed(_, _, _)
Feed(s, xs, i) == IF i > Len(xs) THEN s ELSE Feed(EncSym(s, xs[i]), xs, i + 1)
AddRun == /\ nruns < MaxRuns
          /\ \E r \in RunLens, one \in {0, 1} :
               LET xs == [i \in 1..r |-> 0] \o (IF one = 1 THEN <<1>> ELSE <<>>) IN
               /\ syms' = syms \o xs /\ st' = Feed(st, xs, 1)
          /\ nruns' = nruns + 1
Spec == Init /\ [][AddRun]_vars
RoundTrip == Decode(Unpack(Pack(Encode(syms), 1, <<>>), 1, <<>>), Len(syms)) = syms
StateRange == st.k \in 0..12 /\ st.run < 2^E(st.k) /\ st.bits = (IF Len(syms) = 0 THEN <<>> ELSE st.bits)
NoMarker == LET by == Pack(Encode(syms), 1, <<>>) IN \A i \in 2..Len(by) : by[i - 1] = 255 => by[i] < 128
ReachesTop == st.k < 12          \* violated on purpose in MC_Mel_reach.cfg: shows that the top state is reachable
=============================================================================
