------------------------------- MODULE JpegSeq -------------------------------
(***************************************************************************)
(* ITU-T T.81 baseline sequential DCT process in the COEFFICIENT domain    *)
(* (property C15, reverse direction): a reference ENCODER machine that     *)
(* turns quantised coefficient blocks into a conformant interchange-format *)
(* stream, and the image every conformant decoder must reconstruct when    *)
(* all AC coefficients are zero.                                           *)
(*   A.2    MCU traversal for sampling factors H,V (interleaved scan),     *)
(*   F.1.1.5.1 / E.1.4  DC prediction, reset at restart intervals,         *)
(*   F.1.2.2 AC run/size coding with ZRL and EOB,                          *)
(*   Annex C Huffman code assignment (module JpegLossless),                *)
(*   F.1.2.3 byte stuffing and 1-padding, E.1.4 RSTm,                      *)
(*   B.2    SOI APPn DQT SOF0 DHT DRI SOS EOI.                             *)
(* A JPEG stream is defined by its coefficients: no forward DCT is needed  *)
(* to produce a legal one.  Written from the standard; the tables K.3-K.6  *)
(* are the standard's (their validity is an ASSUME below).                 *)
(***************************************************************************)
EXTENDS JpegLossless, FiniteSets

StdDcLumBits == << 0, 1, 5, 1, 1, 1, 1, 1, 1, 0, 0, 0, 0, 0, 0, 0 >>
StdDcLumVals == << 0, 1, 2, 3, 4, 5, 6, 7, 8, 9, 10, 11 >>
StdAcLumBits == << 0, 2, 1, 3, 3, 2, 4, 3, 5, 5, 4, 4, 0, 0, 1, 125 >>
StdAcLumVals == << 1, 2, 3, 0, 4, 17, 5, 18, 33, 49, 65, 6, 19, 81, 97, 7, 34, 113, 20, 50, 129, 145, 161, 8,
     35, 66, 177, 193, 21, 82, 209, 240, 36, 51, 98, 114, 130, 9, 10, 22, 23, 24, 25, 26, 37, 38, 39, 40,
     41, 42, 52, 53, 54, 55, 56, 57, 58, 67, 68, 69, 70, 71, 72, 73, 74, 83, 84, 85, 86, 87, 88, 89,
     90, 99, 100, 101, 102, 103, 104, 105, 106, 115, 116, 117, 118, 119, 120, 121, 122, 131, 132, 133, 134, 135, 136, 137,
     138, 146, 147, 148, 149, 150, 151, 152, 153, 154, 162, 163, 164, 165, 166, 167, 168, 169, 170, 178, 179, 180, 181, 182,
     183, 184, 185, 186, 194, 195, 196, 197, 198, 199, 200, 201, 202, 210, 211, 212, 213, 214, 215, 216, 217, 218, 225, 226,
     227, 228, 229, 230, 231, 232, 233, 234, 241, 242, 243, 244, 245, 246, 247, 248, 249, 250 >>
StdDcChrBits == << 0, 3, 1, 1, 1, 1, 1, 1, 1, 1, 1, 0, 0, 0, 0, 0 >>
StdDcChrVals == << 0, 1, 2, 3, 4, 5, 6, 7, 8, 9, 10, 11 >>
StdAcChrBits == << 0, 2, 1, 2, 4, 4, 3, 4, 7, 5, 4, 4, 0, 1, 2, 119 >>
StdAcChrVals == << 0, 1, 2, 3, 17, 4, 5, 33, 49, 6, 18, 65, 81, 7, 97, 113, 19, 34, 50, 129, 8, 20, 66, 145,
     161, 177, 193, 9, 35, 51, 82, 240, 21, 98, 114, 209, 10, 22, 36, 52, 225, 37, 241, 23, 24, 25, 26, 38,
     39, 40, 41, 42, 53, 54, 55, 56, 57, 58, 67, 68, 69, 70, 71, 72, 73, 74, 83, 84, 85, 86, 87, 88,
     89, 90, 99, 100, 101, 102, 103, 104, 105, 106, 115, 116, 117, 118, 119, 120, 121, 122, 130, 131, 132, 133, 134, 135,
     136, 137, 138, 146, 147, 148, 149, 150, 151, 152, 153, 154, 162, 163, 164, 165, 166, 167, 168, 169, 170, 178, 179, 180,
     181, 182, 183, 184, 185, 186, 194, 195, 196, 197, 198, 199, 200, 201, 202, 210, 211, 212, 213, 214, 215, 216, 217, 218,
     226, 227, 228, 229, 230, 231, 232, 233, 234, 242, 243, 244, 245, 246, 247, 248, 249, 250 >>

StdDcLum == MkTable(StdDcLumBits, StdDcLumVals)
StdAcLum == MkTable(StdAcLumBits, StdAcLumVals)
StdDcChr == MkTable(StdDcChrBits, StdDcChrVals)
StdAcChr == MkTable(StdAcChrBits, StdAcChrVals)
AcSymbols == {r * 16 + s : r \in 0..15, s \in 1..10} \cup {0, 240}
ASSUME /\ ValidTable(StdDcLum) /\ ValidTable(StdDcChr) /\ ValidTable(StdAcLum) /\ ValidTable(StdAcChr)
       /\ {StdDcLumVals[k] : k \in 1..12} = 0..11 /\ {StdDcChrVals[k] : k \in 1..12} = 0..11
       /\ {StdAcLumVals[k] : k \in 1..162} = AcSymbols /\ {StdAcChrVals[k] : k \in 1..162} = AcSymbols

CeilDiv(a, b) == (a + b - 1) \div b
Clamp8(v) == IF v < 0 THEN 0 ELSE IF v > 255 THEN 255 ELSE v
SeqMax(s) == CHOOSE m \in {s[k] : k \in 1..Len(s)} : \A k \in 1..Len(s) : s[k] <= m

(***************************************************************************)
(* Frame: [w, h, nf, hs, vs, tq, td, ta, cid, ri]; hs/vs/tq/td/ta/cid are  *)
(* sequences per component.  Coefficients: coef[i][by][bx] = sequence of 64 *)
(* quantised coefficients in zig-zag order, for every block of the padded  *)
(* component (A.2.4: whole MCUs are coded).                                *)
(***************************************************************************)
HMax(f) == SeqMax(f.hs)
VMax(f) == SeqMax(f.vs)
McuX(f) == CeilDiv(f.w, 8 * HMax(f))
McuY(f) == CeilDiv(f.h, 8 * VMax(f))
NMcu(f) == McuX(f) * McuY(f)
BlocksX(f, i) == McuX(f) * f.hs[i]
BlocksY(f, i) == McuY(f) * f.vs[i]

\* F.1.2.2: AC coefficients of one block (zig-zag positions 2..64)
RECURSIVE AcBits(_, _, _, _, _)
AcBits(t, zz, k, run, acc) ==
  IF k > 64 THEN (IF run > 0 THEN acc \o CodeOf(t, 0) ELSE acc)                       \* EOB only if the block ends in zeros
  ELSE IF zz[k] = 0 THEN AcBits(t, zz, k + 1, run + 1, acc)
  ELSE IF run > 15 THEN AcBits(t, zz, k, run - 16, acc \o CodeOf(t, 240))             \* ZRL
  ELSE LET s == Cat(zz[k]) IN AcBits(t, zz, k + 1, 0, acc \o CodeOf(t, run * 16 + s) \o ExtraBits(zz[k], s))
\* F.1.2.1: DC difference
DcBits(t, diff) == LET s == Cat(diff) IN CodeOf(t, s) \o ExtraBits(diff, s)
BlockBits(dct, act, zz, pred) == DcBits(dct, zz[1] - pred) \o AcBits(act, zz, 2, 0, <<>>)

\* symbols a block uses (for tables that contain only the symbols in use, K.2)
RECURSIVE AcSyms(_, _, _, _)
AcSyms(zz, k, run, acc) ==
  IF k > 64 THEN (IF run > 0 THEN acc \cup {0} ELSE acc)
  ELSE IF zz[k] = 0 THEN AcSyms(zz, k + 1, run + 1, acc)
  ELSE IF run > 15 THEN AcSyms(zz, k, run - 16, acc \cup {240})
  ELSE AcSyms(zz, k + 1, 0, acc \cup {run * 16 + Cat(zz[k])})

\* blocks of MCU number m (0-based) in coding order: sequence of <<component, by, bx>> (1-based block coordinates)
McuBlocks(f, m) ==
  LET mx == m % McuX(f)  my == m \div McuX(f)
      one(i) == [j \in 1..(f.hs[i] * f.vs[i]) |-> <<i, my * f.vs[i] + ((j - 1) \div f.hs[i]) + 1, mx * f.hs[i] + ((j - 1) % f.hs[i]) + 1>>]
  IN IF f.nf = 1 THEN one(1) ELSE one(1) \o one(2) \o one(3)
\* all blocks of the scan in coding order
RECURSIVE ScanBlocks(_, _, _)
ScanBlocks(f, m, acc) == IF m = NMcu(f) THEN acc ELSE ScanBlocks(f, m + 1, acc \o McuBlocks(f, m))

(***************************************************************************)
(* Encoder machine: one step codes one MCU.                                *)
(*   s.m     next MCU,  s.pred  DC predictions,  s.bits  bits of the       *)
(*   current restart interval,  s.bytes  finished intervals incl. RSTm.    *)
(***************************************************************************)
EncInit(f) == [m |-> 0, pred |-> [i \in 1..f.nf |-> 0], bits |-> <<>>, bytes |-> <<>>, nrst |-> 0]
EncDone(f, s) == s.m = NMcu(f)
RECURSIVE McuBits(_, _, _, _, _, _, _)
McuBits(f, tabs, coef, blks, k, pred, acc) ==
  IF k > Len(blks) THEN <<acc, pred>>
  ELSE LET i == blks[k][1]  zz == coef[i][blks[k][2]][blks[k][3]] IN
       McuBits(f, tabs, coef, blks, k + 1, [pred EXCEPT ![i] = zz[1]],
               acc \o BlockBits(tabs.dc[f.td[i]], tabs.ac[f.ta[i]], zz, pred[i]))
EncMcu(f, tabs, coef, s) ==
  LET r == McuBits(f, tabs, coef, McuBlocks(f, s.m), 1, s.pred, s.bits)
      m1 == s.m + 1
      cut == f.ri > 0 /\ m1 % f.ri = 0 /\ m1 < NMcu(f)                               \* E.1.4: RSTm between intervals, none at the end
  IN IF cut THEN [m |-> m1, pred |-> [i \in 1..f.nf |-> 0], bits |-> <<>>,
                  bytes |-> s.bytes \o Stuff(r[1], 1, <<>>) \o <<255, 208 + (s.nrst % 8)>>, nrst |-> s.nrst + 1]
     ELSE [s EXCEPT !.m = m1, !.pred = r[2], !.bits = r[1]]
EntropyCoded(s) == s.bytes \o Stuff(s.bits, 1, <<>>)

(***************************************************************************)
(* Reference DECODER of the entropy-coded segment (F.2.2), used to model-  *)
(* check the encoder machine: Decode(Encode(coef)) = coef.                 *)
(***************************************************************************)
DecDc(t, bs, pos) ==
  LET r == HuffDecode(t, bs, pos, 0, 0) IN
  IF r[1] < 0 THEN <<0, -1>>
  ELSE IF r[1] = 0 THEN <<0, r[2]>>
  ELSE IF r[2] + r[1] - 1 > Len(bs) THEN <<0, -1>>
  ELSE <<Extend(BitsVal(bs, r[2], r[1], 0), r[1]), r[2] + r[1]>>
RECURSIVE DecAc(_, _, _, _, _)
DecAc(t, bs, pos, k, zz) ==
  IF k > 64 THEN <<zz, pos>>
  ELSE LET r == HuffDecode(t, bs, pos, 0, 0) IN
       IF r[1] < 0 THEN <<zz, -1>>
       ELSE LET run == r[1] \div 16  s == r[1] % 16 IN
            IF s = 0 THEN (IF run = 15 THEN DecAc(t, bs, r[2], k + 16, zz) ELSE <<zz, r[2]>>)
            ELSE LET k1 == k + run IN
                 IF k1 > 64 \/ r[2] + s - 1 > Len(bs) THEN <<zz, -1>>
                 ELSE DecAc(t, bs, r[2] + s, k1 + 1, [zz EXCEPT ![k1] = Extend(BitsVal(bs, r[2], s, 0), s)])
RECURSIVE SplitRst(_, _, _, _)
SplitRst(by, i, cur, acc) ==
  IF i > Len(by) THEN Append(acc, cur)
  ELSE IF by[i] = 255 /\ i < Len(by) /\ by[i + 1] >= 208 /\ by[i + 1] <= 215 THEN SplitRst(by, i + 2, <<>>, Append(acc, cur))
  ELSE SplitRst(by, i + 1, Append(cur, by[i]), acc)
\* decode all blocks; result: sequence of <<component, by, bx, zz>> in coding order, or <<>> on failure
RECURSIVE DecBlocks(_, _, _, _, _, _, _, _, _)
DecBlocks(f, tabs, ivbits, blks, k, iv, pos, pred, acc) ==
  IF k > Len(blks) THEN acc
  ELSE LET perMcu == IF f.nf = 1 THEN f.hs[1] * f.vs[1] ELSE f.hs[1] * f.vs[1] + f.hs[2] * f.vs[2] + f.hs[3] * f.vs[3]
           m == (k - 1) \div perMcu
           restart == f.ri > 0 /\ (k - 1) % perMcu = 0 /\ m > 0 /\ m % f.ri = 0
           iv1 == IF restart THEN iv + 1 ELSE iv
           pos1 == IF restart THEN 1 ELSE pos
           pred1 == IF restart THEN [i \in 1..f.nf |-> 0] ELSE pred
           i == blks[k][1]
       IN IF iv1 > Len(ivbits) THEN <<>>
          ELSE LET bs == ivbits[iv1]
                   d == DecDc(tabs.dc[f.td[i]], bs, pos1) IN
               IF d[2] < 0 THEN <<>>
               ELSE LET a == DecAc(tabs.ac[f.ta[i]], bs, d[2], 2, [j \in 1..64 |-> IF j = 1 THEN pred1[i] + d[1] ELSE 0]) IN
                    IF a[2] < 0 THEN <<>>
                    ELSE DecBlocks(f, tabs, ivbits, blks, k + 1, iv1, a[2], [pred1 EXCEPT ![i] = a[1][1]],
                                   Append(acc, <<i, blks[k][2], blks[k][3], a[1]>>))
DecScan(f, tabs, bytes) ==
  LET ivs == SplitRst(bytes, 1, <<>>, <<>>)
      ivbits == [k \in 1..Len(ivs) |-> Unstuff(ivs[k], 1, <<>>)]
  IN DecBlocks(f, tabs, ivbits, ScanBlocks(f, 0, <<>>), 1, 1, 1, [i \in 1..f.nf |-> 0], <<>>)

(***************************************************************************)
(* Marker segments (B.2)                                                   *)
(***************************************************************************)
Sof0(f) == Seg(192, <<8, f.h \div 256, f.h % 256, f.w \div 256, f.w % 256, f.nf>> \o
                    [j \in 1..(3 * f.nf) |-> LET i == ((j - 1) \div 3) + 1 IN
                       CASE j % 3 = 1 -> f.cid[i] [] j % 3 = 2 -> f.hs[i] * 16 + f.vs[i] [] OTHER -> f.tq[i]])
DqtBody(tq, tab) == <<tq>> \o tab
DhtBody(tc, th, t) == <<tc * 16 + th>> \o t.bits \o t.vals
Dri(ri) == Seg(221, <<ri \div 256, ri % 256>>)
SosSeq(f) == Seg(218, <<f.nf>> \o [j \in 1..(2 * f.nf) |-> IF j % 2 = 1 THEN f.cid[(j + 1) \div 2] ELSE f.td[j \div 2] * 16 + f.ta[j \div 2]]
                      \o <<0, 63, 0>>)

(***************************************************************************)
(* The image of a stream whose blocks are all DC-only: the IDCT of a lone   *)
(* DC term is the constant DC * Q / 8 (A.3.3), level-shifted by 128; chroma *)
(* is replicated (A.1.1: sample (x,y) of component i covers ceil-scaled     *)
(* positions), then JFIF YCbCr -> RGB.  Conformant decoders are within 1    *)
(* of the ideal value per component.                                        *)
(***************************************************************************)
FlatVal(dc, q) == Clamp8(((dc * q + 4) \div 8) + 128)
CompAt(f, coef, qt, i, x, y) ==          \* x, y: 0-based image coordinates
  LET sx == (x * f.hs[i]) \div HMax(f)  sy == (y * f.vs[i]) \div VMax(f)
  IN FlatVal(coef[i][(sy \div 8) + 1][(sx \div 8) + 1][1], qt[f.tq[i]][1])
Rgb(yy, cb, cr) == << Clamp8(yy + ((91881 * (cr - 128) + 32768) \div 65536)),
                      Clamp8(yy - ((22554 * (cb - 128) + 46802 * (cr - 128) + 32768) \div 65536)),
                      Clamp8(yy + ((116130 * (cb - 128) + 32768) \div 65536)) >>
FlatImage(f, coef, qt) ==
  IF f.nf = 1 THEN [k \in 1..(f.w * f.h) |-> CompAt(f, coef, qt, 1, (k - 1) % f.w, (k - 1) \div f.w)]
  ELSE [k \in 1..(3 * f.w * f.h) |->
          LET p == (k - 1) \div 3  x == p % f.w  y == p \div f.w
          IN Rgb(CompAt(f, coef, qt, 1, x, y), CompAt(f, coef, qt, 2, x, y), CompAt(f, coef, qt, 3, x, y))[((k - 1) % 3) + 1]]
=============================================================================
