SPECIFICATION Spec
CONSTANTS
  MaxDim = 8
INVARIANTS TablesValid SelfParse
CHECK_DEADLOCK FALSE
