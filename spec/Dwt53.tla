------------------------------- MODULE Dwt53 -------------------------------
(***************************************************************************)
(* ITU-T T.800 Annex F: reversible 5/3 lifting (F.3.8.2 / F.4.8.2) with    *)
(* whole-sample symmetric extension (F.3.7 / F.4.7) in ABSOLUTE sample     *)
(* coordinates, so that the parity of the tile-component origin selects    *)
(* which samples are low-pass; 2D_SD = VER_SD then HOR_SD (F.4.2), 2D_SR = *)
(* HOR_SR then VER_SR (F.3.2); multi-level Mallat layout; and the          *)
(* reversible component transform of Annex G.2.  From the standard.        *)
(***************************************************************************)
EXTENDS Integers, Sequences, TLC

Even(i) == i % 2 = 0
CeilHalf(i) == (i + 1) \div 2

\* whole-sample symmetric (periodic) extension: index i reflected into i0..i1-1
Reflect(i, i0, i1) ==
  LET n == i1 - i0 IN
  IF n = 1 THEN i0
  ELSE LET p == 2 * (n - 1)  k == (i - i0) % p IN IF k < n THEN i0 + k ELSE i0 + p - k

(***************************************************************************)
(* 1D_SD (F.4.8.2): X is the sequence of samples at absolute positions     *)
(* i0 .. i0+Len(X)-1.  Result: low-pass coefficients (even positions) then *)
(* high-pass coefficients (odd positions).                                 *)
(***************************************************************************)
Fwd1D(X, i0) ==
  LET n == Len(X)  i1 == i0 + n
      x(i) == X[Reflect(i, i0, i1) - i0 + 1]
      \* eq. F-9: Y(2n+1) = X(2n+1) - floor((X(2n) + X(2n+2)) / 2)      -- on odd positions
      H == [i \in i0..(i1 - 1) |-> IF Even(i) THEN 0 ELSE x(i) - ((x(i - 1) + x(i + 1)) \div 2)]
      h(i) == H[Reflect(i, i0, i1)]
      \* eq. F-10: Y(2n) = X(2n) + floor((Y(2n-1) + Y(2n+1) + 2) / 4)    -- on even positions
      L == [i \in i0..(i1 - 1) |-> IF Even(i) THEN x(i) + ((h(i - 1) + h(i + 1) + 2) \div 4) ELSE 0]
      evens == SelectSeq([k \in 1..n |-> i0 + k - 1], Even)
      odds == SelectSeq([k \in 1..n |-> i0 + k - 1], LAMBDA i : ~Even(i))
  IN IF n = 1 THEN (IF Even(i0) THEN X ELSE <<2 * X[1]>>)                \* F.4.8: signals of length one
     ELSE [k \in 1..Len(evens) |-> L[evens[k]]] \o [k \in 1..Len(odds) |-> H[odds[k]]]

\* 1D_SR (F.3.8.2): inverse of the above layout
Inv1D(Y, i0) ==
  LET n == Len(Y)  i1 == i0 + n
      nl == IF Even(i0) THEN (n + 1) \div 2 ELSE n \div 2              \* number of even positions in i0..i1-1
      \* interleave back: coefficient at absolute position i
      c(i) == IF Even(i) THEN Y[(i - (IF Even(i0) THEN i0 ELSE i0 + 1)) \div 2 + 1]
              ELSE Y[nl + (i - (IF Even(i0) THEN i0 + 1 ELSE i0)) \div 2 + 1]
      ce(i) == c(Reflect(i, i0, i1))
      \* eq. F-5: X(2n) = Y(2n) - floor((Y(2n-1) + Y(2n+1) + 2) / 4)
      XE == [i \in i0..(i1 - 1) |-> IF Even(i) THEN c(i) - ((ce(i - 1) + ce(i + 1) + 2) \div 4) ELSE 0]
      xe(i) == XE[Reflect(i, i0, i1)]
      \* eq. F-6: X(2n+1) = Y(2n+1) + floor((X(2n) + X(2n+2)) / 2)
      XO == [i \in i0..(i1 - 1) |-> IF Even(i) THEN XE[i] ELSE c(i) + ((xe(i - 1) + xe(i + 1)) \div 2)]
  IN IF n = 1 THEN (IF Even(i0) THEN Y ELSE <<Y[1] \div 2>>)
     ELSE [k \in 1..n |-> XO[i0 + k - 1]]

(***************************************************************************)
(* 2-D, one level, on the w x h window at the top-left of an image stored  *)
(* as a sequence of rows (Mallat layout: LL top-left).                     *)
(***************************************************************************)
Col(img, x, h) == [y \in 1..h |-> img[y][x]]
Fwd2D(img, w, h, x0, y0) ==
  LET \* VER_SD: every column of the window
      cols == [x \in 1..w |-> Fwd1D(Col(img, x, h), y0)]
      v == [y \in 1..Len(img) |-> [x \in 1..Len(img[y]) |-> IF y <= h /\ x <= w THEN cols[x][y] ELSE img[y][x]]]
      \* HOR_SD: every row of the window
      rows == [y \in 1..h |-> Fwd1D(SubSeq(v[y], 1, w), x0)]
  IN [y \in 1..Len(img) |-> [x \in 1..Len(img[y]) |-> IF y <= h /\ x <= w THEN rows[y][x] ELSE v[y][x]]]
Inv2D(img, w, h, x0, y0) ==
  LET rows == [y \in 1..h |-> Inv1D(SubSeq(img[y], 1, w), x0)]
      r == [y \in 1..Len(img) |-> [x \in 1..Len(img[y]) |-> IF y <= h /\ x <= w THEN rows[y][x] ELSE img[y][x]]]
      cols == [x \in 1..w |-> Inv1D(Col(r, x, h), y0)]
  IN [y \in 1..Len(img) |-> [x \in 1..Len(img[y]) |-> IF y <= h /\ x <= w THEN cols[x][y] ELSE r[y][x]]]

\* size and origin of the LL band of a window (B.5): the even positions
LowLen(n, i0) == IF Even(i0) THEN (n + 1) \div 2 ELSE n \div 2

RECURSIVE FwdML(_, _, _, _, _, _)
FwdML(img, w, h, x0, y0, levels) ==
  IF levels = 0 \/ (w <= 1 /\ h <= 1 /\ Even(x0) /\ Even(y0)) \/ w = 0 \/ h = 0 THEN img
  ELSE FwdML(Fwd2D(img, w, h, x0, y0), LowLen(w, x0), LowLen(h, y0), CeilHalf(x0), CeilHalf(y0), levels - 1)

RECURSIVE InvML(_, _, _, _, _, _)
InvML(img, w, h, x0, y0, levels) ==
  IF levels = 0 \/ (w <= 1 /\ h <= 1 /\ Even(x0) /\ Even(y0)) \/ w = 0 \/ h = 0 THEN img
  ELSE Inv2D(InvML(img, LowLen(w, x0), LowLen(h, y0), CeilHalf(x0), CeilHalf(y0), levels - 1), w, h, x0, y0)

Rows(flat, w, h) == [y \in 1..h |-> SubSeq(flat, (y - 1) * w + 1, y * w)]
RECURSIVE Flat(_, _, _)
Flat(img, y, acc) == IF y > Len(img) THEN acc ELSE Flat(img, y + 1, acc \o img[y])

(***************************************************************************)
(* G.2 reversible component transform                                       *)
(***************************************************************************)
RctFwd(r, g, b) == << (r + 2 * g + b) \div 4, b - g, r - g >>
RctInv(y, cb, cr) == LET g == y - ((cb + cr) \div 4) IN << cr + g, g, cb + g >>
=============================================================================
