------------------------------- MODULE Robust -------------------------------
(***************************************************************************)
(* Properties C08 / C09: the edit planner.  State = (template, cursor).    *)
(* For every template stream (produced by the real encoders in this run)   *)
(* TLC walks its header with the Markers grammar and emits the field-aware *)
(* edit plan that the harness executes against every decoding entry point: *)
(*   SetByte(o, V)   - every value of V at offset o; V is the full byte    *)
(*                     range for structural fields (segment lengths, frame *)
(*                     / scan / SIZ / COD / QCD / SOT bodies, table ids)   *)
(*                     and a boundary set elsewhere (Full = TRUE: the full *)
(*                     range for structural bytes, 26 boundary values for  *)
(*                     every other byte incl. the entropy-coded data)      *)
(*   Shift(D) (JPEG 2000: image and tile grid moved by D on the reference  *)
(*   grid, declared size unchanged),                                       *)
(*   Truncate(n), RandomTail(n), SetTwo(o1, o2), FrameInfo(i) (codec-level *)
(*   entries: zero and mismatching Rows/Columns/BitsAllocated/SPP/Planar). *)
(* The outcome relation (outcome in {ok, error}, budget) is RobustTrace's. *)
(***************************************************************************)
EXTENDS Markers, Json
CONSTANTS TplFile, Full, BodyStride
Tpls == ndJsonDeserialize(TplFile)
NT == Len(Tpls)
T(i) == Tpls[i]

Boundary == {0, 1, 2, 3, 4, 7, 8, 9, 15, 16, 17, 31, 32, 33, 63, 64, 65, 127, 128, 129, 143, 144, 191, 192, 254, 255}
Small == {0, 1, 2, 8, 64, 128, 254, 255}
\* values tried on structural bytes in the quick tier: every low value (selectors, counts, nibbles) and a spread of high ones
Wide == (0..40) \cup {47, 48, 63, 64, 65, 79, 80, 81, 95, 96, 111, 112, 127, 128, 129, 143, 144, 145, 159, 160, 175, 176, 191, 192, 193, 207, 208, 223, 224, 239, 240, 241, 247, 248, 253, 254, 255}
\* displacements of the image and tile grid on the reference grid (A.5.1: XOsiz, YOsiz, XTOsiz, YTOsiz): next to the origin,
\* odd, next to and beyond the default precinct size 2^15, far away
Shifts == <<1, 3, 100, 4095, 32668, 32768, 163840, 1048476>>
IsJ2k(e) == e.api \in {"j2k", "j2kht"} \/ (Len(e.head) >= 2 /\ e.head[1] = 255 /\ e.head[2] = 79)
IsRle(e) == e.api = "codec:rle"

\* 1-based positions of structural bytes in the (possibly clipped) head of a template
JpegCritical(h) ==
  LET w == Segments(h, 3, {218}, {}, <<>>) IN
  UNION { LET m == w.segs[k][1]  a == w.segs[k][2]  b == w.segs[k][3] IN
          {a - 2, a - 1} \cup (IF m \in SOFs \cup {218, 221, 248} THEN a..b ELSE IF m \in {196, 219} THEN {a} ELSE {})
        : k \in 1..Len(w.segs) }
J2kCritical(h) ==
  LET w == MainHeader(h, 3, <<>>) IN
  UNION { LET a == w.segs[k][2]  b == w.segs[k][3] IN {a - 2, a - 1} \cup (a..(IF b - a > 60 THEN a + 60 ELSE b)) : k \in 1..Len(w.segs) }
  \cup (IF w.ok THEN (w.next)..(w.next + 13) ELSE {})
\* the two high-order bytes of the eight 32-bit SIZ extent fields (positions 9.. of a codestream): the quick tier
\* pokes them with four values only (the thorough tier with fifteen) - every other value just declares a gigantic
\* image, which is outside C09's scope and costs a second per case
J2kSizHigh(h) == IF Len(h) >= 44 /\ h[3] = 255 /\ h[4] = 81 THEN UNION {{9 + 4 * k, 10 + 4 * k} : k \in 0..7} ELSE {}
Critical(e) == IF IsRle(e) THEN 1..64 ELSE IF IsJ2k(e) THEN J2kCritical(e.head) ELSE JpegCritical(e.head)

\* first byte of entropy-coded data (1-based), within the head
HdrEnd(e) ==
  IF IsRle(e) THEN 65
  ELSE IF IsJ2k(e) THEN LET S == {i \in 1..(Len(e.head) - 1) : e.head[i] = 255 /\ e.head[i + 1] = 147} IN
                        IF S = {} THEN Len(e.head) ELSE (CHOOSE i \in S : \A j \in S : i <= j) + 2
  ELSE LET w == Segments(e.head, 3, {218}, {}, <<>>) IN IF w.ok THEN w.next ELSE Len(e.head)

VARIABLES t, o, phase
vars == <<t, o, phase>>
Init == t = 1 /\ o = 1 /\ phase = "hdr"

Line(r) == PrintT("@@SCN|" \o ToJson(r))
SetToSeq(S) == LET RECURSIVE F(_, _) F(R, acc) == IF R = {} THEN acc ELSE LET x == CHOOSE x \in R : \A y \in R : x <= y IN F(R \ {x}, Append(acc, x)) IN F(S, <<>>)
Vals(e, pos) == IF IsJ2k(e) /\ pos \in J2kSizHigh(e.head) THEN (IF Full THEN <<0, 1, 2, 3, 4, 8, 16, 32, 64, 127, 128, 129, 192, 254, 255>> ELSE <<0, 1, 128, 255>>)
                ELSE IF Full THEN (IF pos \in Critical(e) THEN <<>> ELSE SetToSeq(Boundary))
                ELSE IF pos \in Critical(e) THEN SetToSeq(Wide) ELSE SetToSeq(Small)
Large(e) == e.len > 4096            \* third-party fixtures: quick tier only truncates and pokes a few bytes

NextTemplate == t' = t + 1 /\ o' = 1 /\ phase' = "hdr"
Next ==
  /\ t <= NT
  /\ LET e == T(t)  he == HdrEnd(e)  n == Len(e.head) IN
     CASE phase = "hdr" ->
            IF o < he /\ o <= n
            THEN /\ (o = 1 /\ IsJ2k(e) => Line([t |-> t, k |-> "shift", o |-> 0, v |-> Shifts]))
                 /\ ((Full \/ ~Large(e) \/ o % 4 = 0) => Line([t |-> t, k |-> "set", o |-> o - 1, v |-> IF Large(e) /\ ~Full THEN SetToSeq(Small) ELSE Vals(e, o)]))
                 /\ Line([t |-> t, k |-> "trunc", o |-> o - 1])
                 /\ o' = o + 1 /\ UNCHANGED <<t, phase>>
            ELSE o' = he /\ phase' = "body" /\ UNCHANGED t
       [] phase = "body" ->
            IF o <= e.len
            THEN /\ Line([t |-> t, k |-> "set", o |-> o - 1, v |-> IF Full THEN SetToSeq(Boundary) ELSE <<0, 1, 127, 128, 143, 144, 254, 255>>])
                 /\ Line([t |-> t, k |-> "trunc", o |-> o - 1])
                 /\ (o % 3 = 0 => Line([t |-> t, k |-> "tail", o |-> o - 1, seed |-> t * 1000 + o]))
                 /\ (o % 2 = 0 => Line([t |-> t, k |-> "set2", o |-> (o * 7) % he, o2 |-> o - 1, seed |-> t * 977 + o]))
                 /\ o' = o + (IF Large(e) /\ ~Full THEN 97 * BodyStride ELSE BodyStride) /\ UNCHANGED <<t, phase>>
            ELSE o' = 1 /\ phase' = "info" /\ UNCHANGED t
       [] phase = "info" ->
            \* FrameInfo grid for codec-level entries: rows, cols, ba, spp, planar incl. zero and mismatching values
            /\ IF e.info[1] = 0 THEN TRUE
               ELSE \A rows \in {0, 1, e.info[1], e.info[1] + 1, 65535}, cols \in {0, 1, e.info[2], e.info[2] - 1},
                       ba \in {0, 1, 8, 16, 32, 12}, spp \in {0, 1, 3, 4}, planar \in {0, 1} :
                     (IsRle(e) \/ (rows + cols + ba + spp) % 7 = 0) => Line([t |-> t, k |-> "info", o |-> 0, info |-> <<rows, cols, ba, spp, planar>>])
            /\ NextTemplate
Spec == Init /\ [][Next]_vars
=============================================================================
