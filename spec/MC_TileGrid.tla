----------------------------- MODULE MC_TileGrid -----------------------------
(* Exhaustive check of the Annex B geometry over small images (properties C19/C04). *)
EXTENDS TileGrid, TLC
CONSTANTS MaxW, MaxH, MaxL
VARIABLES w, h, tw, th
vars == <<w, h, tw, th>>
Init == /\ w \in 1..MaxW /\ h \in 1..MaxH /\ tw \in 1..MaxW /\ th \in 1..MaxH /\ tw <= w /\ th <= h
Next == UNCHANGED vars
Spec == Init /\ [][Next]_vars
Partition == TilesPartition(w, h, tw, th)
Bands == \A t \in Tiles(w, h, tw, th), NL \in 0..MaxL :
            LET rc == TileRect(w, h, tw, th, t) IN BandsPartition(rc, NL) /\ ResFormulationsAgree(rc, NL)
\* vacuity guards: both outcomes of the diagnostic predicate occur in the explored domain
SomeIndependent == \E NL \in 0..MaxL : OriginIndependent(w, h, tw, th, NL, 4, 4)
=============================================================================
