--------------------------------- MODULE MQ ---------------------------------
(***************************************************************************)
(* ITU-T T.800 Annex C: the MQ arithmetic coder as an explicit machine.    *)
(* Encoder: INITENC, CODEMPS / CODELPS with conditional exchange, RENORME, *)
(* BYTEOUT (carry propagation and bit stuffing), FLUSH (SETBITS).          *)
(* Decoder: INITDEC, DECODE (MPS / LPS exchange), RENORMD, BYTEIN.         *)
(* The probability state table is Table C.2.  Written from the standard.   *)
(* Property C20 (MQ part) and the stuffing clause of C16.                  *)
(***************************************************************************)
EXTENDS Integers, Sequences, TLC

\* Table C.2: <<Qe, NMPS, NLPS, SWITCH>> for states 0..46 (1-based in the sequence)
QeT == <<
 <<22017, 1, 1, 1>>,  <<13313, 2, 6, 0>>,  <<6145, 3, 9, 0>>,   <<2753, 4, 12, 0>>,  <<1313, 5, 29, 0>>,  <<545, 38, 33, 0>>,
 <<22017, 7, 6, 1>>,  <<21505, 8, 14, 0>>, <<18433, 9, 14, 0>>, <<14337, 10, 14, 0>>, <<12289, 11, 17, 0>>, <<9217, 12, 18, 0>>,
 <<7169, 13, 20, 0>>, <<5633, 29, 21, 0>>, <<22017, 15, 14, 1>>, <<21505, 16, 14, 0>>, <<20737, 17, 15, 0>>, <<18433, 18, 16, 0>>,
 <<14337, 19, 17, 0>>, <<13313, 20, 18, 0>>, <<12289, 21, 19, 0>>, <<10241, 22, 19, 0>>, <<9217, 23, 20, 0>>, <<8705, 24, 21, 0>>,
 <<7169, 25, 22, 0>>, <<6145, 26, 23, 0>>, <<5633, 27, 24, 0>>, <<5121, 28, 25, 0>>, <<4609, 29, 26, 0>>, <<4353, 30, 27, 0>>,
 <<2753, 31, 28, 0>>, <<2497, 32, 29, 0>>, <<2209, 33, 30, 0>>, <<1313, 34, 31, 0>>, <<1089, 35, 32, 0>>, <<673, 36, 33, 0>>,
 <<545, 37, 34, 0>>,  <<321, 38, 35, 0>>,  <<273, 39, 36, 0>>,  <<133, 40, 37, 0>>,  <<73, 41, 38, 0>>,   <<37, 42, 39, 0>>,
 <<21, 43, 40, 0>>,   <<9, 44, 41, 0>>,    <<5, 45, 42, 0>>,    <<1, 45, 43, 0>>,    <<22017, 46, 46, 0>> >>
Qe(i) == QeT[i + 1][1]
NMPS(i) == QeT[i + 1][2]
NLPS(i) == QeT[i + 1][3]
SW(i) == QeT[i + 1][4]

(***************************************************************************)
(* Encoder.  State: a, c, ct, out, I, MPS.  out[1] is the byte in front of *)
(* the codeword (BP = BPST - 1 at INITENC; it is not 0xFF, so CT = 12) and *)
(* out[Len(out)] is the byte B at BP, which may still receive a carry.     *)
(***************************************************************************)
EncInit(ctxs) == [a |-> 32768, c |-> 0, ct |-> 12, out |-> <<0>>, I |-> [x \in ctxs |-> 0], M |-> [x \in ctxs |-> 0]]

\* Figure C.11 BYTEOUT
ByteOut(s) ==
  LET n == Len(s.out)  B == s.out[n] IN
  IF B = 255 THEN [s EXCEPT !.out = Append(s.out, s.c \div 1048576), !.c = s.c % 1048576, !.ct = 7]
  ELSE IF s.c < 134217728 THEN [s EXCEPT !.out = Append(s.out, s.c \div 524288), !.c = s.c % 524288, !.ct = 8]
  ELSE \* carry into B
       IF B + 1 = 255
       THEN LET c1 == s.c % 134217728 IN
            [s EXCEPT !.out = Append([s.out EXCEPT ![n] = 255], c1 \div 1048576), !.c = c1 % 1048576, !.ct = 7]
       ELSE [s EXCEPT !.out = Append([s.out EXCEPT ![n] = B + 1], (s.c \div 524288) % 256), !.c = s.c % 524288, !.ct = 8]

RECURSIVE Renorme(_)
Renorme(s) ==
  LET s1 == [s EXCEPT !.a = s.a * 2, !.c = s.c * 2, !.ct = s.ct - 1]
      s2 == IF s1.ct = 0 THEN ByteOut(s1) ELSE s1
  IN IF s2.a < 32768 THEN Renorme(s2) ELSE s2

\* C.2.? ENCODE: one decision d in context x
Encode(s, d, x) ==
  LET i == s.I[x]  q == Qe(i)  a1 == s.a - q IN
  IF d = s.M[x]
  THEN \* CODEMPS
       IF a1 < 32768
       THEN Renorme([s EXCEPT !.a = IF a1 < q THEN q ELSE a1, !.c = IF a1 < q THEN s.c ELSE s.c + q, !.I[x] = NMPS(i)])
       ELSE [s EXCEPT !.a = a1, !.c = s.c + q]
  ELSE \* CODELPS
       Renorme([s EXCEPT !.a = IF a1 < q THEN a1 ELSE q, !.c = IF a1 < q THEN s.c + q ELSE s.c,
                         !.M[x] = IF SW(i) = 1 THEN 1 - s.M[x] ELSE s.M[x], !.I[x] = NLPS(i)])

\* Figure C.12 FLUSH: SETBITS, two BYTEOUTs; a trailing 0xFF is not part of the codeword
Flush(s) ==
  LET tempc == s.c + s.a
      c1 == s.c - (s.c % 65536) + 65535                 \* C | 0xFFFF
      c2 == IF c1 >= tempc THEN c1 - 32768 ELSE c1
      s1 == ByteOut([s EXCEPT !.c = c2 * 2^s.ct])
      s2 == ByteOut([s1 EXCEPT !.c = s1.c * 2^s1.ct])
      o == SubSeq(s2.out, 2, Len(s2.out))
  IN IF Len(o) > 0 /\ o[Len(o)] = 255 THEN SubSeq(o, 1, Len(o) - 1) ELSE o

\* index of the byte at BP (0 = the byte in front of the codeword): what the implementation calls bp
BP(s) == Len(s.out) - 1

(***************************************************************************)
(* Decoder over the byte sequence by (end of data: 0xFF fill, C.3.4).      *)
(* The 32-bit C register is kept as two 16-bit halves ch (Chigh) and cl    *)
(* (Clow): TLC integers are 32-bit signed.                                 *)
(***************************************************************************)
ByteAt(by, p) == IF p >= 1 /\ p <= Len(by) THEN by[p] ELSE 255
AddLow(s, v) == LET t == s.cl + v IN [s EXCEPT !.cl = t % 65536, !.ch = (s.ch + t \div 65536) % 65536]
Shl(s) == [s EXCEPT !.ch = (s.ch * 2 + s.cl \div 32768) % 65536, !.cl = (s.cl * 2) % 65536]
RECURSIVE ShlN(_, _)
ShlN(s, n) == IF n = 0 THEN s ELSE ShlN(Shl(s), n - 1)

\* Figure C.19 BYTEIN
ByteIn(by, s) ==
  IF ByteAt(by, s.bp) = 255
  THEN IF ByteAt(by, s.bp + 1) > 143 THEN [AddLow(s, 65280) EXCEPT !.ct = 8]
       ELSE [AddLow(s, ByteAt(by, s.bp + 1) * 512) EXCEPT !.bp = s.bp + 1, !.ct = 7]
  ELSE [AddLow(s, ByteAt(by, s.bp + 1) * 256) EXCEPT !.bp = s.bp + 1, !.ct = 8]

\* Figure C.20 INITDEC
DecInit(by, ctxs) ==
  LET s0 == [a |-> 32768, ch |-> ByteAt(by, 1), cl |-> 0, ct |-> 0, bp |-> 1, I |-> [x \in ctxs |-> 0], M |-> [x \in ctxs |-> 0], d |-> 0]
      s1 == ByteIn(by, s0)
  IN [ShlN(s1, 7) EXCEPT !.ct = s1.ct - 7]

\* Figure C.18 RENORMD
RECURSIVE Renormd(_, _)
Renormd(by, s) ==
  LET s1 == IF s.ct = 0 THEN ByteIn(by, s) ELSE s
      s2 == [Shl(s1) EXCEPT !.a = s1.a * 2, !.ct = s1.ct - 1]
  IN IF s2.a < 32768 THEN Renormd(by, s2) ELSE s2

\* Figure C.15 DECODE (with the exchanges of C.16 / C.17): returns the new state with the decision in .d
Decode(by, s, x) ==
  LET i == s.I[x]  q == Qe(i)  a1 == s.a - q  m == s.M[x] IN
  IF s.ch < q
  THEN \* LPS_EXCHANGE
       IF a1 < q THEN Renormd(by, [s EXCEPT !.a = q, !.d = m, !.I[x] = NMPS(i)])
       ELSE Renormd(by, [s EXCEPT !.a = q, !.d = 1 - m, !.M[x] = IF SW(i) = 1 THEN 1 - m ELSE m, !.I[x] = NLPS(i)])
  ELSE LET h1 == s.ch - q IN
       IF a1 < 32768
       THEN \* MPS_EXCHANGE
            IF a1 < q THEN Renormd(by, [s EXCEPT !.a = a1, !.ch = h1, !.d = 1 - m, !.M[x] = IF SW(i) = 1 THEN 1 - m ELSE m, !.I[x] = NLPS(i)])
            ELSE Renormd(by, [s EXCEPT !.a = a1, !.ch = h1, !.d = m, !.I[x] = NMPS(i)])
       ELSE [s EXCEPT !.a = a1, !.ch = h1, !.d = m]

RECURSIVE DecodeAll(_, _, _, _, _)
DecodeAll(by, s, cxs, k, acc) == IF k > Len(cxs) THEN acc ELSE LET s1 == Decode(by, s, cxs[k]) IN DecodeAll(by, s1, cxs, k + 1, Append(acc, s1.d))

\* C16 clause: no byte above 0x8F after 0xFF, and the codeword does not end in 0xFF
NoMarker(by) == /\ \A p \in 1..(Len(by) - 1) : by[p] = 255 => by[p + 1] <= 143
                /\ (Len(by) > 0 => by[Len(by)] # 255)
=============================================================================
