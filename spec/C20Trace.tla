------------------------------ MODULE C20Trace ------------------------------
(***************************************************************************)
(* Trace specification for the transform / block-coder parts of C20.       *)
(*  dwt : wavelet.ForwardMultilevelWithParity then InverseMultilevel...;   *)
(*        inverse(forward(x)) must be x; the forward coefficients are also *)
(*        compared with the T.800 Annex F lifting of spec/Dwt53.tla and a  *)
(*        difference is reported as INFO (C20 only requires invertibility).*)
(*  rct : RCT forward then inverse on component arrays.                    *)
(*  t1  : EBCOT block encode (EncodeLayered, any of the 64 styles) then    *)
(*        decode with the reported pass lengths; block identity.  The      *)
(*        encoder's bytes are also decoded by the Annex D reference        *)
(*        decoder of module T1 (small blocks); C20 only requires the       *)
(*        library's coder to invert itself, so disagreement is counted and *)
(*        reported as INFO: agree / differ under the vertically-causal     *)
(*        style (which the library declares but does not implement) /      *)
(*        differ otherwise.                                                *)
(***************************************************************************)
EXTENDS Dwt53, T1, Json
CONSTANT TraceFile
Tr == ndJsonDeserialize(TraceFile)
VARIABLES l, nacc, ninfo, t1c
tvars == <<l, nacc, ninfo, t1c>>
E == Tr[l]

DwtReason == IF E.inv # E.src THEN "inverse 5/3 does not undo forward" ELSE "ok"
DwtConforms == E.w * E.h > 400 \/ Flat(FwdML(Rows(E.src, E.w, E.h), E.w, E.h, E.x0, E.y0, E.levels), 1, <<>>) = E.fwd
RctReason ==
  IF E.ir # E.r \/ E.ig # E.g \/ E.ib # E.b THEN "inverse RCT does not undo forward"
  ELSE IF \E i \in 1..Len(E.r) : RctFwd(E.r[i], E.g[i], E.b[i]) # <<E.y[i], E.cb[i], E.cr[i]>> THEN "forward RCT differs from G.2"
  ELSE "ok"
T1Reason ==
  IF E.err # "" THEN "block coder failed"
  ELSE IF E.out # E.src THEN "decoded block differs from encoded block" ELSE "ok"
\* the encoder's bytes read by the Annex D reference decoder (module T1) with the segment lengths the encoder reports
T1G == [w |-> E.w, h |-> E.h, orient |-> E.orient, style |-> E.style]
T1Conforms == ~E.ref \/ E.passes = 0 \/
              LET d == DecodeBlock(T1G, (E.passes + 2) \div 3, SegmentsOf(E.style, E.code, E.rates)) IN d.ok /\ d.val = E.src
\* style bits: 1 bypass(LAZY) 2 reset 4 termall 8 vcausal 16 pterm 32 segsym
T1Disc == IF E.style % 2 = 1 /\ (E.style \div 4) % 2 = 0 THEN "lazy-without-termall" ELSE "-"

Reason == CASE E.ev = "dwt" -> DwtReason [] E.ev = "rct" -> RctReason [] E.ev = "t1" -> T1Reason [] OTHER -> "ok"
Key == CASE E.ev = "dwt" -> "C20/dwt/" [] E.ev = "rct" -> "C20/rct/" [] E.ev = "t1" -> "C20/t1/" [] OTHER -> "C20/"
Disc == IF E.ev = "t1" THEN "/" \o T1Disc ELSE ""
Descr == CASE E.ev = "dwt" -> ToString([w |-> E.w, h |-> E.h, levels |-> E.levels, x0 |-> E.x0, y0 |-> E.y0])
           [] E.ev = "t1" -> ToString([w |-> E.w, h |-> E.h, orient |-> E.orient, style |-> E.style, bits |-> E.bits]) \o " err=" \o E.err
           [] OTHER -> ""

Init == l = 1 /\ nacc = 0 /\ ninfo = 0 /\ t1c = [agree |-> 0, vsc |-> 0, other |-> 0, ragree |-> 0, rlazy |-> 0, rvsc |-> 0, rother |-> 0]
Step ==
  /\ l <= Len(Tr) /\ l' = l + 1
  /\ IF E.ev = "t1" /\ E.ref /\ E.passes > 0
     THEN LET c == T1Conforms IN
          /\ t1c' = [t1c EXCEPT !.agree = @ + (IF c THEN 1 ELSE 0), !.vsc = @ + (IF ~c /\ HasStyle(E.style, 8) THEN 1 ELSE 0),
                                 !.other = @ + (IF ~c /\ ~HasStyle(E.style, 8) THEN 1 ELSE 0)]
          /\ IF c \/ HasStyle(E.style, 8) THEN TRUE ELSE PrintT("@@INFO|T1 bytes not decodable by the Annex D reference decoder: " \o Descr)
     ELSE IF E.ev = "t1rev"
     THEN \* a block coded by the reference encoder (T1Gen) and decoded by the library: informational
          LET ok == E.err = "" /\ E.out = E.src
              lazy == HasStyle(E.style, 1) /\ ~HasStyle(E.style, 4)  vsc == HasStyle(E.style, 8) IN
          /\ t1c' = [t1c EXCEPT !.ragree = @ + (IF ok THEN 1 ELSE 0), !.rlazy = @ + (IF ~ok /\ lazy THEN 1 ELSE 0),
                                 !.rvsc = @ + (IF ~ok /\ ~lazy /\ vsc THEN 1 ELSE 0), !.rother = @ + (IF ~ok /\ ~lazy /\ ~vsc THEN 1 ELSE 0)]
          /\ IF ok \/ lazy \/ vsc THEN TRUE
             ELSE PrintT("@@INFO|library block decoder does not recover a block coded by the Annex D reference encoder: " \o
                         ToString([w |-> E.w, h |-> E.h, orient |-> E.orient, style |-> E.style, planes |-> E.planes]) \o " err=" \o E.err)
     ELSE UNCHANGED t1c
  /\ IF E.ev \notin {"dwt", "rct", "t1"} THEN UNCHANGED <<nacc, ninfo>>
     ELSE LET r == Reason IN
          IF r = "ok"
          THEN /\ nacc' = nacc + 1
               /\ IF E.ev = "dwt" /\ ~DwtConforms
                  THEN PrintT("@@INFO|forward 5/3 differs from T.800 Annex F lifting: " \o Descr) /\ ninfo' = ninfo + 1
                  ELSE UNCHANGED ninfo
          ELSE PrintT("@@REJECT|" \o ToString(E.scn) \o "|" \o ToString(E.k) \o "|" \o Key \o r \o Disc \o "|" \o Descr) /\ UNCHANGED <<nacc, ninfo>>
Finish == /\ l = Len(Tr) + 1 /\ PrintT("@@ACCEPT|" \o ToString(nacc)) /\ PrintT("@@DONE|" \o ToString(Len(Tr)))
          /\ PrintT("@@INFO|t1ref agree=" \o ToString(t1c.agree) \o " vsc=" \o ToString(t1c.vsc) \o " other=" \o ToString(t1c.other)
                    \o " ragree=" \o ToString(t1c.ragree) \o " rlazy=" \o ToString(t1c.rlazy) \o " rvsc=" \o ToString(t1c.rvsc) \o " rother=" \o ToString(t1c.rother))
          /\ l' = l + 1 /\ UNCHANGED <<nacc, ninfo, t1c>>
TraceSpec == Init /\ [][Step \/ Finish]_tvars
=============================================================================
