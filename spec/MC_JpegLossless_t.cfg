SPECIFICATION Spec
CONSTANTS
  MaxW = 3
  MaxH = 2
  P = 2
  Comps = 1
INVARIANTS RoundTrip TableOK
CHECK_DEADLOCK FALSE
