SPECIFICATION Spec
CONSTANTS
  RunLens = {0, 1, 2, 3, 5, 9, 17, 33}
  MaxRuns = 4
INVARIANTS RoundTrip StateRange NoMarker
CHECK_DEADLOCK FALSE
