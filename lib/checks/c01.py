"""C01 - RLE round trip and Annex G validity (DESIGN.md section 7, C01)."""
import os, json
import vlib


def run(ctx):
    wd = ctx.wd
    vlib.stage_specs(wd)
    drv = vlib.build_harness()
    # 1. model-check the design (scaled packet limits put every split point within reach)
    ctx.mc("MC_PackBits", "MC_PackBits_small.cfg" if not ctx.quick else "MC_PackBits_small_q.cfg")
    if not ctx.quick:
        ctx.mc("MC_PackBits", "MC_PackBits_pkt4.cfg")
    # 2. behaviours of the real-constant machine = scenarios
    scn, r = vlib.gen_scenarios(wd, "MC_PackBits", "MC_PackBits_real_q.cfg" if ctx.quick else "MC_PackBits_real.cfg")
    ctx.mc_states += r["distinct"]; ctx.mc_transitions += r["states"]
    ctx.mc_runs.append({"module": "MC_PackBits", "cfg": "real", "generated": r["states"], "distinct": r["distinct"], "behaviours_emitted": len(scn)})
    scnf = os.path.join(wd, "scn.ndjson")
    with open(scnf, "w") as f:
        for s in scn:
            f.write(json.dumps(s) + "\n")
    trace = os.path.join(wd, "trace.ndjson")
    args = ["c01", "--scn", scnf, "--out", trace, "--seed", str(ctx.seed)]
    if ctx.quick:
        args += ["--seeded", "1500", "--maxdim", "48"]
    else:
        args += ["--seeded", "30000", "--maxdim", "64", "--giants"]
    out = vlib.run_driver(drv, args, env=ctx.env())
    stats = dict(kv.split("=") for kv in out.strip().split()[1:])
    shards = vlib.shard_trace(trace, wd, vlib.NCPU)
    val = vlib.validate(wd, "RleTrace", shards)
    samples = [json.loads(l) for l in open(shards[0]).readlines()[1:3]]
    for s in samples:
        for k in ("src", "stream", "out"):
            if k in s and len(s[k]) > 80:
                s[k] = s[k][:80] + ["..."]
    classes = count_classes(trace)
    return ctx.finish(
        "model_checking", val, evaluations=int(stats["scenarios"]), samples=samples,
        rule="scenario = one Encode+Decode of rle.Codec. Exhaustive part: every behaviour of the PackBits encoder "
             "machine (all byte strings up to the configured length over {0,1,255}) x every frame description whose byte "
             "count matches; seeded part: content classes with runs/literals on the 2/3, 127..130, 255..258 boundaries. "
             "distinct_nontrivial = distinct (content class, BitsAllocated, SamplesPerPixel, planar, packet-shape) tuples "
             "among accepted scenarios, where packet-shape is the multiset of PackBits packet kinds/length-classes the "
             "independent reader met",
        assumptions=["the PackBits reader and plane mapping of spec/PackBits.tla, spec/RleFrame.tla are a faithful transcription of PS3.5 Annex G",
                     "frames above 128 KiB are compared by SHA-256 computed in the harness (header invariants still evaluated by TLC)",
                     "TLC 1.8.0, JSON deserialisation by CommunityModules"],
        extra={"exhaustive_scenarios": int(stats["exhaustive"])},
        distinct=len(classes), exhaustive=False)


def count_classes(trace):
    """Distinct (class, geometry kind, packet shape) among recorded encodes - measured from the trace."""
    seen = set()
    with open(trace) as f:
        for line in f:
            if '"ev":"enc"' not in line[:60]:
                continue
            e = json.loads(line)
            st = e.get("stream") or []
            kinds = set()
            info = e["info"]
            # packet shapes of the first segment only (cheap): walk PackBits
            if len(st) >= 64:
                n = st[0]
                off1 = st[4] | st[5] << 8 | st[6] << 16
                end = (st[8] | st[9] << 8 | st[10] << 16) if n > 1 else len(st)
                i = off1
                while i < end and i < len(st):
                    c = st[i]
                    if c < 128:
                        kinds.add("L%d" % bucket(c + 1)); i += c + 2
                    elif c > 128:
                        kinds.add("R%d" % bucket(257 - c)); i += 2
                    else:
                        i += 1
            seen.add((e.get("cls"), info["ba"], info["spp"], info["planar"], tuple(sorted(kinds))))
    return seen


def bucket(n):
    for b in (1, 2, 3, 126, 127, 128):
        if n <= b:
            return b
    return 129
