"""C09 - decoding ends within time/memory bounded by input length and declared image size."""
from checks import robust_common


def run(ctx):
    return robust_common.run_prop(
        ctx, "C09",
        rule="same executions as C08 (shared trace). Per case the child measures wall time and bytes allocated during the call "
             "(runtime.MemStats.TotalAlloc delta, an upper bound of the heap growth); RLIMIT_AS (6 GiB) is the kill switch and an "
             "11 s watchdog kills a hanging child. TLC (RobustTrace) computes the declared sample count S from the first SOF/SIZ of "
             "the mutated bytes itself (saturating arithmetic) and accepts iff not applicable (stream > 64 KiB or S > 2^22) or "
             "time <= 10 s, allocation <= 512 MiB + 64*S, no timeout, no fatal abort. distinct_nontrivial as in C08",
        assumptions=["allocation is measured as cumulative bytes allocated during the call, which over-approximates peak heap; a case "
                     "is only rejected for memory when even the declared-size allowance is exceeded",
                     "timing verdicts use a 10 s budget against decodes that take microseconds to milliseconds when correct"])
