"""C08 - no decoder panics: every byte string yields a result or an error."""
from checks import robust_common


def run(ctx):
    return robust_common.run_prop(
        ctx, "C08",
        rule="case = one decode of a mutated template stream under recover() in a child process. Templates: small valid streams of "
             "every codec/geometry class produced by the real encoders in this run (20 package-level, 15 registered-codec entries incl. "
             "RLE) plus third-party HTJ2K fixtures. Edit plan from TLC (spec/Robust.tla, field-aware through the Markers grammar): "
             "every header byte x value set (structural bytes: 0..40 and a spread of 37 high values in quick, all 256 in thorough; "
             "other bytes: 8 boundary values / 26 boundary values), body bytes, every truncation point, random tails after valid prefixes, "
             "sampled double edits, FrameInfo grid for codec-level entries (zero / mismatching Rows, Columns, BitsAllocated, SPP, "
             "Planar). TLC (RobustTrace) accepts outcome in {ok, error}. distinct_nontrivial = distinct (entry point, template, "
             "outcome, edit kind)",
        assumptions=["grammar-directed enumeration, no coverage feedback; deep decoder states are reached only through the templates",
                     "benign outcomes of one plan line are aggregated into one event (count, max time, max allocation)"])
