"""C05 - JPEG 2000 Lossless-Only syntaxes stay lossless under every accepted parameter set."""
from checks import rtcommon


def run(ctx):
    args = (["--n", "500", "--maxdim", "64", "--exh", "1"] if ctx.quick
            else ["--n", "24000", "--maxdim", "128", "--exh", "2", "--big"])
    return rtcommon.run_contract(
        ctx, "c05", args, class_keys=None,
        rule="scenario = Encode then Decode of the registered .90 / .92 codec through PixelData (1..3 frames); parameter objects: "
             "nil, GetDefaultParameters(), typed JPEG2000LosslessParameters and generic codec.Parameters satisfying the premise "
             "(AppendLosslessLayer or Rate=0 and TargetRatio=0) over Rate {0,1,5,7,20,40,100,1280}, ladders, TargetRatio 0..100, "
             "NumLayers 1..10, PCRD switch, NumLevels 0..6, progression 0..4, AllowMCT; FrameInfo BitsAllocated 8 (BitsStored 2..8) / "
             "16 (9..16), SPP {1,3}, signed/unsigned; sizes: width 1..40 x height 1..80 grid (quick: 1/23 of it by seed, thorough: "
             "all), random sizes, widths 1..16. TLC checks frame count and byte identity. distinct_nontrivial = distinct "
             "(syntax, BitsAllocated, BitsStored, SPP, signed, parameter kind, rate, layers, levels)",
        assumptions=["frames above 128 KiB in total are compared by SHA-256 computed in the harness"])
