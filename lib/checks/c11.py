"""C11 - JPEG DCT codecs (Baseline/Extended): loss bounded by the declared quantisation."""
from checks import rtcommon


def run(ctx):
    args = (["--n", "500", "--maxdim", "33", "--exh", "1"] if ctx.quick else ["--n", "32000", "--maxdim", "96", "--exh", "2"])
    return rtcommon.run_contract(
        ctx, "c11", args, class_keys=("api", "c", "p", "q", "cls"), trace_module="DctTrace",
        rule="scenario = baseline.Encode / extended.Encode (8-bit 1+3 components, 12-bit 1 component) then the matching Decode; every "
             "quality 1..100 is visited; all sizes 1..33 x 1..33 (quick: a ninth by seed); content: noise, Nyquist checkerboard, "
             "0/max stripes, block-aligned high-frequency DCT basis patterns (long zero runs, ZRL), extremes, ramps. TLC reads the DQT "
             "tables from the emitted stream (spec/JpegDCT.tla), computes the bound ceil(1/8 sum C(u)C(v)Q) + 2 (through the absolute "
             "inverse colour matrix + 5 for RGB) in integer arithmetic rounded up, and checks every sample. distinct_nontrivial = "
             "distinct (api, components, precision, quality, class)",
        assumptions=["the bound's derivation is mathematics (coefficient error <= Q/2 through the IDCT basis); TLC evaluates it, it does "
                     "not model-check real-valued DCT arithmetic",
                     "decoded buffers are unpacked into container words by the harness"],
        extra={"note": "zig-zag permutation is checked as an ASSUME-level fact in spec/JpegDCT.tla (IsPermutation)"})
