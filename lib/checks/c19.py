"""C19 - JPEG 2000 tiled images: exact reversible reconstruction for every tile grid."""
from checks import rtcommon


def run(ctx):
    args = (["--n", "500", "--maxdim", "64", "--exh", "1"] if ctx.quick
            else ["--n", "8000", "--maxdim", "600", "--exh", "2"])
    return rtcommon.run_contract(
        ctx, "c19", args, class_keys=("c", "p", "levels", "layers", "tw", "th"),
        rule="scenario = reversible multi-tile Encode/Decode; grid part: every (W,H,TW,TH) with W,H up to 6 (quick: a quarter of "
             "them by seed) or 12 (thorough: all), at most 64 tiles; seeded part: 1..8 tiles per axis, power-of-two tiles, odd tile "
             "sizes (odd origins), last tile one sample wide, tiles smaller than a code-block; components {1,3}, P {8,12,16}, levels "
             "0..5, layers 1..3, global rate allocation with a final lossless layer. distinct_nontrivial = distinct (components, P, "
             "levels, layers, tile width, tile height)",
        mc_runs=[("MC_TileGrid", "MC_TileGrid.cfg" if ctx.quick else "MC_TileGrid_t.cfg")],
        assumptions=["decoded pixel buffers are unpacked into container words by the harness; identity and geometry are evaluated by TLC"])
