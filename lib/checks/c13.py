"""C13 - JPEG Lossless streams and decoders conform to T.81 (independent codec in TLA+)."""
import os, json
import vlib


def run(ctx):
    wd = ctx.wd
    vlib.stage_specs(wd)
    drv = vlib.build_harness()
    for cfg in (["MC_JpegLossless_q.cfg"] if ctx.quick else ["MC_JpegLossless_q.cfg", "MC_JpegLossless_t.cfg", "MC_JpegLossless_tp3.cfg", "MC_JpegLossless_t3.cfg"]):
        ctx.mc("MC_JpegLossless", cfg, timeout=3000 if ctx.quick else 14400)
    # reverse direction: conformant streams from the reference encoder machine (seeded simulation)
    nsim = 250 if ctx.quick else 3000
    scn, r = vlib.gen_scenarios(wd, "JllGen", "JllGen.cfg", workers=1, simulate="num=%d" % nsim, timeout=1500,
                                extra=["-seed", str(1000 + ctx.seed), "-depth", "80"])
    ctx.mc_states += r["states"]; ctx.mc_transitions += r["states"]
    ctx.mc_runs.append({"module": "JllGen", "cfg": "simulate", "generated": r["states"], "streams": len(scn)})
    if len(scn) < nsim // 2:
        raise vlib.Infra("reference encoder produced only %d of %d streams" % (len(scn), nsim))
    scnf = os.path.join(wd, "scn.ndjson")
    with open(scnf, "w") as f:
        for s in scn:
            f.write(json.dumps(s) + "\n")
    trace = os.path.join(wd, "trace.ndjson")
    args = ["c13", "--scn", scnf, "--out", trace, "--seed", str(ctx.seed)] + (["--n", "700", "--maxdim", "12"] if ctx.quick else ["--n", "9000", "--maxdim", "32"])
    out = vlib.run_driver(drv, args, env=ctx.env())
    stats = dict(kv.split("=") for kv in out.strip().split()[1:])
    shards = vlib.shard_trace(trace, wd, vlib.NCPU, max_bytes=6 << 20)
    val = vlib.validate(wd, "JllTrace", shards, timeout=3000 if ctx.quick else 14400)
    steps = sum(int(i.split("=")[1]) for i in val["infos"] if i.startswith("steps="))
    classes, samples = set(), []
    with open(trace) as f:
        for line in f:
            if '"ev":"fwd"' in line[:60]:
                i = line.find('"cfg":'); j = line.find("}", i)
                c = json.loads(line[i + 6:j + 1])
                classes.add(("fwd", c["api"], c["pred"], c["p"], c["c"]))
            elif '"ev":"rev"' in line[:60]:
                e = json.loads(line)
                classes.add(("rev", e["api"], e["pred"], e["p"], e["c"], tuple(e["td"])))
                if len(samples) < 2:
                    samples.append({k: v for k, v in e.items() if k not in ("src", "out")})
    return ctx.finish(
        "model_checking", val, evaluations=int(stats["scenarios"]), samples=samples,
        rule="forward: streams of lossless.Encode (predictor 0..7) and lossless14sv1.Encode (exhaustive tiny P=2 images, every "
             "precision 2..16, components {1,3}) are decoded by the T.81 reference decoder machine of spec/JpegLossless.tla, one "
             "TLC state per MCU, and must give the source; reverse: conformant streams produced by the reference ENCODER machine "
             "under TLC -simulate (predictor 1..7, P 2..16, components {1,3}, Td 0..3 per component, 3 Huffman length profiles with "
             "random value permutations, DHT before/after SOF3, optional APP0/APP14/COM, an unused AC-class table) are decoded by "
             "lossless.Decode (and lossless14sv1.Decode for predictor 1) and must give the source and geometry. "
             "distinct_nontrivial = distinct (direction, api, predictor, P, components[, Td])",
        assumptions=["spec/JpegLossless.tla is a faithful transcription of T.81 Annex C, F.1.2, F.2.2, H (self-consistency and the "
                     "exhaustive 65536-difference category round trip are model-checked)",
                     "no restart intervals, one scan, H=V=1, point transform 0 on the library side"],
        extra={"driver_stats": stats, "reference_decoder_steps": steps}, distinct=len(classes))
