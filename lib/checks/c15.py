"""C15 - JPEG DCT streams and decoders agree with an independent JPEG implementation (image/jpeg)."""
import os, json
import vlib


def run(ctx):
    wd = ctx.wd
    vlib.stage_specs(wd)
    drv = vlib.build_harness()
    # the entropy coder design: encoder machine vs F.2.2 decoder, restart / stuffing / traversal invariants
    ctx.mc("MC_JpegSeq", "MC_JpegSeq_q.cfg" if ctx.quick else "MC_JpegSeq_t.cfg", timeout=3000 if ctx.quick else 14400)
    # reverse direction: conformant streams from the reference encoder machine (seeded simulation)
    nsim = 400 if ctx.quick else 4000
    scn, r = vlib.gen_scenarios(wd, "JpegSeqGen", "JpegSeqGen.cfg", workers=1, simulate="num=%d" % nsim, timeout=3000,
                                extra=["-seed", str(2000 + ctx.seed), "-depth", "400"])
    ctx.mc_states += r["states"]; ctx.mc_transitions += r["states"]
    ctx.mc_runs.append({"module": "JpegSeqGen", "cfg": "simulate", "generated": r["states"], "streams": len(scn)})
    if len(scn) < nsim // 2:
        raise vlib.Infra("reference encoder produced only %d of %d streams" % (len(scn), nsim))
    scnf = os.path.join(wd, "scn.ndjson")
    with open(scnf, "w") as f:
        for s in scn:
            f.write(json.dumps(s) + "\n")
    trace = os.path.join(wd, "trace.ndjson")
    args = ["c15", "--scn", scnf, "--out", trace, "--seed", str(ctx.seed)] + \
           (["--n", "300", "--maxdim", "64", "--exh", "1"] if ctx.quick else ["--n", "4000", "--maxdim", "128", "--exh", "2"])
    out = vlib.run_driver(drv, args, env=ctx.env())
    stats = dict(kv.split("=") for kv in out.strip().split()[1:] if "=" in kv)
    shards = vlib.shard_trace(trace, wd, vlib.NCPU, max_bytes=6 << 20)
    val = vlib.validate(wd, "InteropTrace", shards, timeout=3000 if ctx.quick else 14400)
    infra = [i for i in val["infos"] if i.startswith("INFRA")]
    if infra:
        raise vlib.Infra("reference side inconsistent (generator or specified image): " + "; ".join(infra[:3]))
    classes, samples = set(), []
    with open(trace) as f:
        for line in f:
            if '"ev":"case"' in line[:60]:
                e = json.loads(line)
                c = e["cfg"]
                classes.add((c["dir"], c["src"], c["samp"], c["rst"], c["tab"], c["mode"], min(e["w"], 34) % 8, min(e["h"], 34) % 8))
                if len(samples) < 3:
                    samples.append(e)
    return ctx.finish(
        "model_checking", val, evaluations=int(stats["scenarios"]), samples=samples,
        rule="scenario = one JPEG stream. fwd: baseline.Encode / extended.Encode (8 bit, grey and RGB, every quality 1..100, sizes "
             "1..33 x 1..33 (quick: a ninth per family by seed) and random sizes up to 256) decoded by image/jpeg and by the library's "
             "own decoder. rev: streams of image/jpeg.Encode (grey 1x1, colour 4:2:0; same sweep) and of the reference baseline encoder "
             "machine of spec/JpegSeq.tla run under TLC -simulate (sizes 1..33, grey / 4:4:4 / 4:2:2 / 4:2:0 / 4:4:0, restart interval "
             "none/1/2/3/one MCU row/beyond the scan, Huffman tables K.3-K.6 / flat / only-the-symbols-in-use, table ids split / shared "
             "/ swapped, DHT and DQT packed or one per table, none / JFIF / Adobe / JFIF+COM, component ids 0.. / 1.. / 7.., blocks "
             "DC-only / sparse with ZRL and coefficient 63 / dense), each decoded by baseline.Decode and extended.Decode. TLC "
             "(spec/InteropTrace.tla) checks acceptance, geometry, w*h*c samples, |lib - image/jpeg| <= 2 (grey) / 6 (RGB) on every "
             "sample (above 1500 samples: on the maximum computed by the harness) and, for DC-only streams, |lib - FlatImage| <= 1 "
             "(grey) / 3,3,4 (RGB). distinct_nontrivial = distinct (direction, producer, sampling, restarts, tables, block mode, "
             "w mod 8, h mod 8)",
        assumptions=["image/jpeg is the independent decoder named by the property; a reference stream it rejects or a specified "
                     "image it disagrees with stops the check as a checker failure (exit 2)",
                     "the reference encoder works in the coefficient domain (no forward DCT): a baseline stream is defined by its "
                     "quantised coefficients; MC_JpegSeq model-checks it against the F.2.2 decoder"],
        extra={"driver_stats": stats}, distinct=len(classes))
