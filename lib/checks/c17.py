"""C17 - encoders reject unrepresentable input: error, never panic or mis-declared stream."""
import os, json
import vlib


def run(ctx):
    wd = ctx.wd
    vlib.stage_specs(wd)
    drv = vlib.build_harness()
    scn, r = vlib.gen_scenarios(wd, "ArgsGen", "ArgsGen.cfg", workers=4, timeout=900)
    ctx.mc_states += r["distinct"]; ctx.mc_transitions += r["states"]
    ctx.mc_runs.append({"module": "ArgsGen", "cfg": "ArgsGen.cfg", "generated": r["states"], "distinct": r["distinct"], "tuples": len(scn)})
    if ctx.quick:      # quick: all single-argument tuples, a seeded third of the pairs
        import random
        rnd = random.Random(ctx.seed)
        nominal = {"w": 5, "h": 4, "c": 1, "p": 8, "levels": 2, "cbw": 16, "cbh": 16, "layers": 1, "buf": "req"}
        def off(s):
            return sum(1 for k, v in nominal.items() if s[k] != v)
        geom = ("w", "h", "c", "p", "buf")     # pairs inside the geometry (products, sign cancellation, overflow) are always run
        def geompair(s):
            return all(s[k] == v for k, v in nominal.items() if k not in geom)
        scn = [s for s in scn if off(s) <= 1 or geompair(s) or rnd.random() < 0.34]
    scnf = os.path.join(wd, "scn.ndjson")
    with open(scnf, "w") as f:
        for s in scn:
            f.write(json.dumps(s) + "\n")
    trace = os.path.join(wd, "trace.ndjson")
    out = vlib.run_driver(drv, ["c17", "--scn", scnf, "--out", trace, "--seed", str(ctx.seed)], env=ctx.env())
    stats = dict(kv.split("=") for kv in out.strip().split()[1:])
    shards = vlib.shard_trace(trace, wd, vlib.NCPU)
    val = vlib.validate(wd, "ArgsTrace", shards, timeout=1800)
    val["accepted_scenarios"] = val["accepted"]
    classes, samples = set(), []
    with open(trace) as f:
        for line in f:
            e = json.loads(line)
            if e["ev"] == "args":
                a = e["a"]
                classes.add((a["enc"], e["outcome"], a["buf"], min(a["w"], 300), min(a["h"], 300), a["c"], a["p"]))
                if len(samples) < 2:
                    samples.append(e)
            elif e["ev"] == "cargs":
                classes.add((e["ts"], e["what"], e["outcome"]))
    return ctx.finish(
        "model_checking", val, evaluations=int(stats["scenarios"]), samples=samples,
        rule="tuple = (encoder, width, height, components, bit depth, quality / NEAR / predictor / levels / code-block / layers, buffer "
             "length class) enumerated by TLC (spec/ArgsGen.tla): the nominal tuple, every single off-nominal argument over boundary "
             "values (-1, 0, 1, 2, 255..257, 2^15, 2^16-1, 2^16, 2^16+1; depth 0..32; buffer 0, 1, required-1, required+1, first "
             "row only, half), and every pair of off-nominal arguments (quick: every pair inside width/height/components/depth/buffer, a seeded third of the other pairs); plus codec-level calls "
             "on the 14 registered syntaxes (nil / foreign / default parameters, zero frames, empty, short, first-row-only frames, "
             "zero Rows/Columns/SPP/BitsAllocated, 4 samples, 16 byte planes). TLC (ArgsTrace) decides with the Representable "
             "predicate of spec/Args.tla. distinct_nontrivial = distinct (encoder, outcome, buffer class, dims, components, depth)",
        assumptions=["Representable() transcribes the property statement and the documented limits of each format",
                     "large dimensions are generated only with the other dimension <= 2 to keep memory small"],
        extra={"driver_stats": stats}, distinct=len(classes))
