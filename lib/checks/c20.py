"""C20 - JPEG 2000 building blocks are exact inverses: MQ, EBCOT T1, 5/3 DWT, RCT."""
import os, json
import vlib


def run(ctx):
    wd = ctx.wd
    vlib.stage_specs(wd)
    drv = vlib.build_harness()
    for cfg in (["MC_MQ_q.cfg", "MC_MQ_p40.cfg"] if ctx.quick else ["MC_MQ_q.cfg", "MC_MQ_p40.cfg", "MC_MQ_p90.cfg", "MC_MQ_t.cfg"]):
        ctx.mc("MC_MQ", cfg, timeout=3000 if ctx.quick else 14400)
    ctx.mc("MC_Dwt53", "MC_Dwt53_q.cfg" if ctx.quick else "MC_Dwt53_t.cfg", timeout=3000 if ctx.quick else 14400)
    ctx.mc("MC_T1", "MC_T1_q.cfg" if ctx.quick else "MC_T1_t.cfg", timeout=6000 if ctx.quick else 14400)
    # reverse direction for the block coder: blocks coded by the reference encoder (seeded simulation)
    nsim = 300 if ctx.quick else 3000
    scn, r = vlib.gen_scenarios(wd, "T1Gen", "T1Gen.cfg", workers=1, simulate="num=%d" % nsim, timeout=3000,
                                extra=["-seed", str(3000 + ctx.seed), "-depth", "10"])
    ctx.mc_states += r["states"]; ctx.mc_transitions += r["states"]
    ctx.mc_runs.append({"module": "T1Gen", "cfg": "simulate", "generated": r["states"], "blocks": len(scn)})
    scnf = os.path.join(wd, "t1gen.ndjson")
    with open(scnf, "w") as f:
        for s in scn:
            f.write(json.dumps(s) + "\n")
    trace = os.path.join(wd, "trace.ndjson")
    args = ["c20", "--scn", scnf, "--out", trace, "--seed", str(ctx.seed)] + (["--n", "200", "--maxdim", "40", "--exh", "1"] if ctx.quick else ["--n", "3000", "--maxdim", "257", "--exh", "2"])
    out = vlib.run_driver(drv, args, env=ctx.env())
    stats = dict(kv.split("=") for kv in out.strip().split()[1:])
    mqf, otf = os.path.join(wd, "mq.ndjson"), os.path.join(wd, "other.ndjson")
    with open(trace) as f, open(mqf, "w") as fm, open(otf, "w") as fo:
        for line in f:
            if '"ev":"reset"' in line[:60]:
                continue
            (fm if '"ev":"mq"' in line[:60] else fo).write(line)
    def split_lines(path, prefix, max_bytes):
        """events of these two files are self-contained (no scenario state): cut at any line boundary"""
        files, cur, n = [], None, 0
        target = max(max_bytes // 4, min(max_bytes, os.path.getsize(path) // vlib.NCPU + 1))
        with open(path, "rb") as f:
            for line in f:
                if cur is None or n >= target:
                    if cur:
                        cur.close()
                    fn = os.path.join(wd, "%s_%03d.ndjson" % (prefix, len(files)))
                    cur, n = open(fn, "wb"), 0
                    files.append(fn)
                cur.write(line)
                n += len(line)
        if cur:
            cur.close()
        return files
    mshards = split_lines(mqf, "mq", 6 << 20)
    oshards = split_lines(otf, "ot", 6 << 20)
    # thorough: single events of 10^5 decisions are 5 MB lines with fifteen arrays: fewer, larger JVMs
    v1 = vlib.validate(wd, "MqTrace", mshards, timeout=3000 if ctx.quick else 14400, heap="3g" if ctx.quick else "7g",
                       parallel=None if ctx.quick else 6)
    v2 = vlib.validate(wd, "C20Trace", oshards, timeout=3000 if ctx.quick else 14400, heap="4g")
    val = {"rejects": v1["rejects"] + v2["rejects"], "states": v1["states"] + v2["states"], "transitions": v1["transitions"] + v2["transitions"],
           "lines": v1["lines"] + v2["lines"], "accepted": v1["accepted"] + v2["accepted"], "infos": v1["infos"] + v2["infos"], "classes": set()}
    steps = sum(int(i.split("=")[1]) for i in val["infos"] if i.startswith("steps="))
    fwd_info = [i for i in val["infos"] if i.startswith("forward 5/3")]
    t1ref = {"agree": 0, "vsc": 0, "other": 0, "ragree": 0, "rlazy": 0, "rvsc": 0, "rother": 0}
    for i in val["infos"]:
        if i.startswith("t1ref "):
            for kv in i.split()[1:]:
                k, v = kv.split("=")
                t1ref[k] += int(v)
    t1_other = [i for i in val["infos"] if i.startswith("T1 bytes not decodable") or i.startswith("library block decoder does not")]
    classes, samples = set(), []
    with open(otf) as f:
        for line in f:
            e = json.loads(line)
            if e["ev"] == "t1":
                classes.add(("t1", e["style"], e["orient"], min(e["w"], 9), min(e["h"], 9)))
            elif e["ev"] == "dwt":
                classes.add(("dwt", min(e["w"], 9), min(e["h"], 9), e["levels"], e["x0"] % 2, e["y0"] % 2))
                if len(samples) < 2 and e["w"] * e["h"] < 30:
                    samples.append(e)
    return ctx.finish(
        "model_checking", val, evaluations=int(stats["scenarios"]), samples=samples,
        rule="MQ: every (decision, context) sequence of length <= 8 over 2 contexts (thorough: sampled up to 12) plus seeded sequences "
             "up to 1000 (thorough 10^5) decisions, 1/2/19 contexts, bias 0..100%: the real MQEncoder/MQDecoder registers are "
             "compared with the Annex C machine after every decision; T1: the 64 code-block styles x block shapes 1x1..64x64 x "
             "orientation x magnitudes up to 2^24 and a dense sweep of 1000 (thorough 6000) random blocks up to 24x24 per style, all "
             "3*planes-2 passes, decoded with the reported pass lengths; the encoder's bytes of blocks up to 36 (thorough 100) samples "
             "are also decoded by the T.800 Annex D reference block decoder of spec/T1.tla (+ MQ.tla) with the reported segment "
             "lengths (t1_reference_decoder: agree / differ under the vertically-causal style / differ otherwise), and blocks coded by "
             "the reference ENCODER (T1Gen under TLC -simulate, 300 / 3000 blocks up to 6x6, all 64 styles) are decoded by the library's "
             "block decoder (ragree / rlazy: bypass without TERMALL, the known decoder defect / rvsc / rother); both informational, C20 "
             "only requires the library's coder to invert itself; DWT: every "
             "w,h <= 6 (thorough 12) x levels 0..3 x origin parity plus seeded sizes up to 257, levels 0..8, origins 0..7, values up "
             "to 2^28; RCT: triples incl. extremes up to 2^28. distinct_nontrivial = distinct T1 (style, orientation, shape class) and "
             "DWT (shape class, levels, parity) tuples",
        assumptions=["spec/MQ.tla (T.800 Annex C, Table C.2) and spec/Dwt53.tla (Annex F, G.2) are faithful transcriptions; both are "
                     "model-checked for exact invertibility in small scope",
                     "spec/T1.tla transcribes Annex D (all six style bits); MC_T1 model-checks DecodeBlock(EncodeBlock(x)) = x in small "
                     "scope; against the library it is an informational second opinion, the verdict on T1 is block identity",
                     "forward 5/3 coefficients are compared with the Annex F lifting for blocks up to 400 samples and differences are "
                     "reported as INFO, not as violations (C20 only requires invertibility)"],
        extra={"driver_stats": stats, "mq_decisions_stepped": steps, "forward_dwt_info_lines": len(fwd_info), "forward_dwt_info_samples": fwd_info[:3],
               "t1_reference_decoder": t1ref, "t1_reference_decoder_other_samples": t1_other[:3]},
        distinct=len(classes))
