"""C14 - JPEG-LS streams and decoders conform to T.87 (stepped reference decoder in TLA+)."""
import os, json
import vlib


def run(ctx):
    wd = ctx.wd
    vlib.stage_specs(wd)
    drv = vlib.build_harness()
    ctx.mc("MC_JpegLS_h3", "MC_JpegLS_h3.cfg", workers=2)
    for cfg in (["MC_JpegLS_q.cfg", "MC_JpegLS_q3.cfg"] if ctx.quick else ["MC_JpegLS_q.cfg", "MC_JpegLS_q3.cfg", "MC_JpegLS_t.cfg", "MC_JpegLS_t3.cfg", "MC_JpegLS_tp3.cfg"]):
        ctx.mc("MC_JpegLS", cfg, timeout=3000 if ctx.quick else 14400)
    trace = os.path.join(wd, "trace.ndjson")
    args = ["c14", "--out", trace, "--seed", str(ctx.seed)] + (["--n", "900", "--maxdim", "14"] if ctx.quick else ["--n", "12000", "--maxdim", "40"])
    out = vlib.run_driver(drv, args, env=ctx.env())
    stats = dict(kv.split("=") for kv in out.strip().split()[1:])
    shards = vlib.shard_trace(trace, wd, vlib.NCPU, max_bytes=6 << 20)
    val = vlib.validate(wd, "JlsTrace", shards, timeout=3000 if ctx.quick else 14400)
    steps = sum(int(i.split("=")[1]) for i in val["infos"] if i.startswith("steps="))
    classes, samples = set(), []
    with open(trace) as f:
        for line in f:
            if '"ev":"jls"' not in line[:60]:
                continue
            i = line.find('"cfg":'); j = line.find("}", i)
            c = json.loads(line[i + 6:j + 1])
            classes.add((c["api"], c["p"], c["c"], min(c["near"], 4), c["cls"]))
            if len(samples) < 2:
                e = json.loads(line)
                samples.append({k: (v if not isinstance(v, list) or len(v) < 64 else v[:64] + ["..."]) for k, v in e.items()})
    return ctx.finish(
        "model_checking", val, evaluations=int(stats["scenarios"]), samples=samples,
        rule="scenario = one image through jpegls/lossless (NEAR=0) or nearlossless (NEAR 0..max): the library stream is decoded by "
             "the T.87 decoder machine of spec/JpegLS.tla (one TLC state per coding step) and must equal the library's decode (and "
             "the source for NEAR=0); NEAR=0: both encoders byte-identical and each decoder decodes the other's stream; the Annex "
             "H.3 image through both encoders must give the published 57 bytes. Content incl. 'terraces' (gradients on the T1/T2/T3 "
             "boundaries) and outliers that need the LIMIT escape. distinct_nontrivial = distinct (api, P, components, min(NEAR,4), class)",
        assumptions=["spec/JpegLS.tla is a faithful transcription of ITU-T T.87 Annex A/C (checked against the Annex H.3 vector by "
                     "MC_JpegLS_h3); for 3 components the sample-interleaved run-interruption rule follows the reference "
                     "implementation's reading (context 365, prediction Rb) that passes the T.87 conformance images",
                     "default coding parameters only (no LSE), ILV 0 (1 component) or 2 (3 components)"],
        extra={"driver_stats": stats, "reference_decoder_steps": steps}, distinct=len(classes))
