"""C18 - registered codecs are safe for concurrent use (extracted access model + race detector)."""
import os, re, json, glob, random
import vlib


def parse_race_reports(pattern):
    """Go race detector reports -> list of (writers, detail).

    A report is identified by its WRITE access(es): the innermost repository frame of the write and the repository frame that
    called it ("f <- caller").  The reading side varies from run to run with scheduling and inlining (any reader of the same
    object can be the one the detector happens to catch), the writing call site is what defines the defect."""
    reps = []
    for fn in glob.glob(pattern):
        txt = open(fn, errors="replace").read()
        for block in txt.split("WARNING: DATA RACE")[1:]:
            writers, sites, kinds = set(), [], []
            for m in re.finditer(r"^(Read|Write|Previous read|Previous write|Atomic [a-z ]+) at .*?\n((?:  .*\n)+)", block, re.M):
                kinds.append(m.group(1))
                frames = re.findall(r"^  (\S+)\(\)\n\s+(\S+?):\d+", m.group(2), re.M)
                repo = [f.split("go-dicom-codecs/")[-1] for f, p in frames if "go-dicom-codecs" in f]
                site = repo[0] if repo else (frames[0][0] if frames else "?")
                sites.append(site)
                if "rite" in m.group(1):
                    writers.add(" <- ".join(repo[:2]) if repo else site)
            if len(sites) >= 2:
                reps.append((" & ".join(sorted(writers)) or "no write access identified",
                             "%s <-> %s (%s)" % (sites[0], sites[1], " / ".join(kinds[:2]))))
    return reps


def run(ctx):
    wd = ctx.wd
    vlib.stage_specs(wd)
    drv = vlib.build_harness()
    drv_race = vlib.build_harness(race=True)
    # 1. access model extracted from the current sources
    model = os.path.join(wd, "shared.ndjson")
    vlib.run_driver(drv, ["extract-shared", "--repo", vlib.REPO, "--out", model])
    cfg = open(os.path.join(wd, "SharedMem.cfg")).read().replace("MODELFILE", model)
    open(os.path.join(wd, "SharedMem_run.cfg"), "w").write(cfg)
    # 2. model checking: NoRace + static obligation; every reachable overlap is a schedule.
    #    A violated invariant is NOT yet a verdict: it must be confirmed on the real code below (or by the static clause).
    r = vlib.tlc(wd, "SharedMem", "SharedMem_run.cfg", workers=4, timeout=900, extra=["-continue"])
    scn = [json.loads(p) for k, p in vlib.parse_prints(r["out"]) if k == "SCN"]
    ctx.mc_states += r["distinct"]; ctx.mc_transitions += r["states"]
    model_violation = [m for m in re.findall(r"Invariant (\w+) is violated", r["out"])]
    ctx.mc_runs.append({"module": "SharedMem", "cfg": "extracted", "generated": r["states"], "distinct": r["distinct"],
                        "schedules": len(scn), "invariants_violated_in_model": sorted(set(model_violation))})
    if not scn:
        raise vlib.Infra("SharedMem produced no schedules:\n" + r["out"][-2000:])
    rnd = random.Random(ctx.seed)
    if ctx.quick:
        # every overlap of two calls on the SAME codec (the only ones that can share a codec or parameters object),
        # plus a seeded sample of the cross-codec overlaps
        same = [s for s in scn if len({c["codec"] for c in s["calls"]}) == 1]
        other = [s for s in scn if len({c["codec"] for c in s["calls"]}) > 1]
        scn = same + rnd.sample(other, min(len(other), 350))
    scnf = os.path.join(wd, "sched.ndjson")
    with open(scnf, "w") as f:
        for s in scn:
            f.write(json.dumps(s) + "\n")
    # 3. the schedules under the race detector
    trace = os.path.join(wd, "trace.ndjson")
    env = ctx.env()
    env["GORACE"] = "log_path=%s halt_on_error=0 exitcode=0" % os.path.join(wd, "race")
    out = vlib.run_driver(drv_race, ["c18", "--scn", scnf, "--out", trace, "--seed", str(ctx.seed), "--big", "4" if ctx.quick else "24",
                                     "--reps", "2" if ctx.quick else "4"], env=env, timeout=3 * 3600)
    stats = dict(kv.split("=") for kv in out.strip().split()[1:])
    races = parse_race_reports(os.path.join(wd, "race.*"))
    seen = set()
    nsc = int(stats["scenarios"])
    with open(trace, "a") as f:
        for i, (writers, detail) in enumerate(races):
            if writers in seen:
                continue
            seen.add(writers)
            f.write(json.dumps({"scn": nsc + 1 + i, "k": 0, "ev": "reset"}) + "\n")
            f.write(json.dumps({"scn": nsc + 1 + i, "k": 1, "ev": "race", "writers": writers, "detail": detail}) + "\n")
    shards = vlib.shard_trace(trace, wd, vlib.NCPU)
    val = vlib.validate(wd, "ConcTrace", shards, timeout=1800)
    val["accepted_scenarios"] = val["accepted"]
    # the model's static clause is part of the property's quantifier text: it is reported even without a dynamic witness
    if "StaticObligation" in model_violation:
        statics = [json.loads(l)["w"] for l in open(model) if '"t":"static"' in l]
        for w in statics:
            if (w["kind"] == "global" and not w["ininit"] and not w["guard"]) or w["kind"] == "codecfield":
                val["rejects"].append({"shard": model, "raw": "%d|0|C18/static/%s written by %s|%s" % (nsc + 1000, w["loc"], w["func"], w["pos"])})
    # a NoRace violation in the model without a dynamic confirmation: extractor over-approximation -> informational
    unconfirmed = "NoRace" in model_violation and not races
    samples = [json.loads(l) for l in open(shards[0]).readlines()[1:2]]
    classes = set()
    with open(trace) as f:
        for line in f:
            if '"ev":"conc"' in line[:60]:
                e = json.loads(line)
                for c in e["calls"]:
                    classes.add((c["ts"], c["op"], c["mode"], e["gomaxprocs"]))
    return ctx.finish(
        "model_checking", val, evaluations=nsc, samples=samples,
        rule="model: processes x registered codec entry points x parameter modes {nil, private, one shared valid object}, access sets "
             "extracted from the sources on this run; TLC checks NoRace over all interleavings of 2 calls and the static obligation, "
             "and every overlap it reaches is a schedule. Dynamic: the schedules (quick: 700 seeded of them) and seeded batches of "
             "8..64 concurrent calls run on the registered codecs under the Go race detector with GOMAXPROCS in {1,2,4,16}; each call's "
             "output digests are compared with the same call run alone. distinct_nontrivial = distinct (syntax, op, parameter mode, GOMAXPROCS)",
        assumptions=["the extractor is syntactic (go/ast, name-based call graph restricted by imports): reads are over-approximated, "
                     "aliasing through pointers other than the receiver / parameters object is not tracked",
                     "a NoRace violation of the model alone (no race-detector witness, no static-clause violation) is reported as "
                     "model_unconfirmed in this evidence, not as a violation"],
        extra={"driver_stats": stats, "race_reports": len(races), "model_invariants_violated": sorted(set(model_violation)), "model_unconfirmed": unconfirmed},
        distinct=len(classes))
