"""C04 - JPEG 2000 reversible single-tile round trip, every configuration."""
from checks import rtcommon


def run(ctx):
    args = (["--n", "1400", "--maxdim", "40", "--exh", "1"] if ctx.quick
            else ["--n", "80000", "--maxdim", "72", "--exh", "2", "--big"])
    return rtcommon.run_contract(
        ctx, "c04", args, class_keys=("c", "p", "signed", "levels", "prog", "layers", "mct", "cls"),
        rule="scenario = jpeg2000.NewEncoder(params).Encode then NewDecoder().Decode with Lossless=true and a single tile; "
             "round-robin over components 1..4 x P 1..16 x signedness, random NumLevels 0..6, 22 code-block shapes (square and "
             "non-square, 4..1024), precincts {0,32,64,128,256}, progression 0..4, layers 1..6, MCT on/off; sizes: random up to the "
             "tier's bound, 1..3-wide/high strips, sizes around code-block multiples, a full w x h grid with noise (quick: a third "
             "of 12x12, thorough: all of 40x40), thorough adds random sizes up to 600. Content classes with noise weighted x3. "
             "distinct_nontrivial = distinct (components, P, signed, levels, progression, layers, MCT, class)",
        assumptions=["decoded pixel buffers are unpacked into container words by the harness; unsigned samples are compared exactly, "
                     "signed ones as P-bit two's-complement values; geometry/precision/signedness are evaluated by TLC"])
