"""C10 - frames map 1:1, in order, independently of history; buffers untouched; decoded size."""
import os, json
import vlib


def run(ctx):
    wd = ctx.wd
    vlib.stage_specs(wd)
    drv = vlib.build_harness()
    # histories: exhaustive small scope from the FrameMap state graph, plus simulated long ones
    scn, r = vlib.gen_scenarios(wd, "FrameMap", "FrameMap_q.cfg" if ctx.quick else "FrameMap_t.cfg")
    ctx.mc_states += r["distinct"]; ctx.mc_transitions += r["states"]
    ctx.mc_runs.append({"module": "FrameMap", "cfg": "bfs", "generated": r["states"], "distinct": r["distinct"], "histories": len(scn)})
    full = [s for s in scn if len(s["ops"]) == max(len(x["ops"]) for x in scn)]
    if not ctx.quick:
        # thorough: sample of the (much larger) exhaustive set, seeded, plus all of the quick set
        import random
        rnd = random.Random(ctx.seed)
        full = rnd.sample(full, min(len(full), 6000))
    sim_n, sim_d = (60, 3) if ctx.quick else (400, 4)
    sim, r2 = vlib.gen_scenarios(wd, "FrameMapSim", "FrameMap_sim.cfg", workers=1,
                                 simulate="num=%d" % sim_n, timeout=300)
    ctx.mc_runs.append({"module": "FrameMapSim", "cfg": "simulate", "histories": len(sim)})
    longest = {}
    for s in sim:      # keep the maximal history of each simulated behaviour
        key = json.dumps(s["ops"][:1])
        if len(s["ops"]) >= len(longest.get(key, {"ops": []})["ops"]):
            longest[key] = s
    hists = full + list(longest.values())
    scnf = os.path.join(wd, "scn.ndjson")
    with open(scnf, "w") as f:
        for s in hists:
            f.write(json.dumps(s) + "\n")
    trace = os.path.join(wd, "trace.ndjson")
    out = vlib.run_driver(drv, ["c10", "--scn", scnf, "--out", trace, "--seed", str(ctx.seed), "--per", "2" if ctx.quick else "6"], env=ctx.env())
    stats = dict(kv.split("=") for kv in out.strip().split()[1:])
    # the memo is global: one validator process sees the solo events first, so shard by copying them
    shards = shard_with_solos(trace, wd, vlib.NCPU)
    val = vlib.validate(wd, "FrameMapTrace", shards)
    samples = []
    kinds = set()
    with open(trace) as f:
        for line in f:
            e = json.loads(line)
            if e["ev"] == "call":
                kinds.add((e["ts"], e["v"], e["op"], len(e["frames"]), e["p"]))
                if len(samples) < 3:
                    samples.append(e)
    return ctx.finish(
        "model_checking", val, evaluations=int(stats["calls"]) + int(stats["objcalls"]), samples=samples,
        rule="history = sequence of Encode/Decode calls on one registered codec object (14 syntaxes x 2..5 FrameInfo variants) or on "
             "one jpeg2000.Decoder; TLC enumerates every history of 2 operations whose frame sequences have length 1..2 (thorough: "
             "1..3, sampled) over 3 very different frames x {nil, default} parameters, and simulates longer ones (up to 4 "
             "operations, sequences up to 8 frames); each history runs on several (syntax, FrameInfo) pairs. The memo F is fixed by "
             "solo executions made before any history. distinct_nontrivial = distinct (syntax, FrameInfo, op, sequence length, params)",
        assumptions=["outputs are compared by SHA-256 and length (computed in the harness); the comparison with the memo, the buffer "
                     "check, the frame count, the size formula and lossless identity are evaluated by TLC",
                     "frames avoid the minimum sample value (known HTJ2K finding of C06) so that history effects are not masked"],
        extra={"driver_stats": stats}, distinct=len(kinds))


def shard_with_solos(trace, wd, n):
    solos, hist = [], []
    cur, kind = [], None
    with open(trace) as f:
        for line in f:
            if '"ev":"reset"' in line[:60]:
                if cur:
                    (solos if kind == "solo" else hist).append(cur)
                cur, kind = [line], ("solo" if '"kind":"solo"' in line else "hist")
            else:
                cur.append(line)
    if cur:
        (solos if kind == "solo" else hist).append(cur)
    n = max(1, min(n, len(hist) // 50 + 1))
    files = []
    for i in range(n):
        fn = os.path.join(wd, "shard_%03d.ndjson" % i)
        with open(fn, "w") as f:
            for s in solos:
                f.writelines(s)
            for h in hist[i::n]:
                f.writelines(h)
        files.append(fn)
    return files
