"""C06 - HTJ2K lossless (.201/.202): exact round trip and exact decode of the 14 third-party fixtures."""
import os
import vlib
from checks import rtcommon


def mel_side(ctx, wd, drv):
    """MEL coder of the HT cleanup pass: model-checked (MC_Mel) and bound to htj2k.MELEncoder/MELDecoder (informational)."""
    ctx.mc("MC_Mel", "MC_Mel_q.cfg" if ctx.quick else "MC_Mel_t.cfg", timeout=3000 if ctx.quick else 14400)
    trace = os.path.join(wd, "mel.ndjson")
    vlib.run_driver(drv, ["mel", "--out", trace, "--seed", str(ctx.seed), "--n", "400" if ctx.quick else "4000", "--maxdim", "120"], env=ctx.env())
    shards = vlib.shard_trace(trace, wd, vlib.NCPU, prefix="mel")
    v = vlib.validate(wd, "MelTrace", shards, timeout=3000)
    c = {"agree": 0, "enc": 0, "dec": 0}
    for i in v["infos"]:
        if i.startswith("mel "):
            for kv in i.split()[1:]:
                k, val = kv.split("=")
                c[k] += int(val)
    return {"mel_coder": {"strings_agreeing": c["agree"], "library_bytes_not_decodable_by_reference": c["enc"],
                          "library_decoder_differs": c["dec"],
                          "samples": [i for i in v["infos"] if i.startswith("MEL ")][:3]}}


def run(ctx):
    args = (["--n", "500", "--maxdim", "64", "--exh", "1"] if ctx.quick
            else ["--n", "24000", "--maxdim", "128", "--exh", "2", "--big"])
    return rtcommon.run_contract(
        ctx, "c06", args, class_keys=None,
        rule="scenario = Encode then Decode of the registered .201 / .202 codec; Rows x Columns grid 1..80 (quick: all of 1..3 x "
             "1..3 and 1/41 of the rest by seed), 1-wide and 1-high images, random sizes; BitsAllocated {8,16}, BitsStored <= "
             "BitsAllocated, SPP {1,3}, signed/unsigned; typed/generic/nil parameters with BlockWidth/Height in {4..64}, NumLevels "
             "0..6; 12 content classes; plus every lossless codestream listed in test-data/htj2k/interop/manifest.json (14 OpenJPH / "
             "fo-dicom streams, default and RPCL progression) decoded through the registered codec of its progression and compared "
             "with the fixture's input.raw byte for byte (event fixdec; the 888x459 16-bit pair by SHA-256). distinct_nontrivial = distinct (syntax, BA, BS, SPP, signed, block size, levels, class)",
        assumptions=["frames above 128 KiB in total are compared by SHA-256 computed in the harness",
                     "mel_coder (spec/Mel.tla, MC_Mel, MelTrace) is an informational companion: the MEL run-length coder of the HT "
                     "cleanup pass is model-checked and bound to htj2k.MELEncoder / MELDecoder; C06 itself is decided on images"],
        side=mel_side)
