"""Shared execution for C08 (no panics) and C09 (bounded time/memory): one run feeds both validators."""
import os, json, hashlib, subprocess, shutil, time
import vlib

CACHE = os.path.join(vlib.WORKROOT, "robust_cache")


def tree_key(ctx, drv):
    h = hashlib.sha256()
    h.update(subprocess.run(["git", "-C", vlib.REPO, "rev-parse", "HEAD"], capture_output=True).stdout)
    h.update(subprocess.run(["git", "-C", vlib.REPO, "diff", "HEAD"], capture_output=True).stdout)
    h.update(open(drv, "rb").read())
    for f in ("Robust.tla", "Markers.tla"):
        h.update(open(os.path.join(vlib.SPEC, f), "rb").read())
    h.update(("%s/%d" % (ctx.tier, ctx.seed)).encode())
    return h.hexdigest()[:24]


def produce_trace(ctx):
    """templates -> TLC edit plan -> execution in child processes -> trace (cached per tree/tier/seed)."""
    wd = ctx.wd
    vlib.stage_specs(wd)
    drv = vlib.build_harness()
    key = tree_key(ctx, drv)
    cdir = os.path.join(CACHE, key)
    trace = os.path.join(wd, "trace.ndjson")
    meta_f = os.path.join(cdir, "meta.json")
    if os.path.exists(meta_f) and time.time() - os.path.getmtime(meta_f) < 1800 and ctx.only is None:
        try:
            shutil.copy(os.path.join(cdir, "trace.ndjson"), trace)
            meta = json.load(open(meta_f))
            vlib.log("robust: reusing trace %s" % key)
            return trace, meta
        except (OSError, ValueError):
            pass        # another check is replacing the cache: compute it here
    tpl = os.path.join(wd, "tpl.ndjson")
    vlib.run_driver(drv, ["robust-templates", "--out", tpl + ".raw", "--repo", vlib.REPO])
    with open(tpl + ".raw") as f, open(tpl, "w") as g:
        for line in f:
            if '"ev":"tpl"' in line[:60]:
                g.write(line)
    cfgname = "Robust_q.cfg" if ctx.quick else "Robust_t.cfg"
    cfg = open(os.path.join(wd, cfgname)).read().replace("TPLFILE", tpl)
    open(os.path.join(wd, "Robust_run.cfg"), "w").write(cfg)
    plan, r = vlib.gen_scenarios(wd, "Robust", "Robust_run.cfg", workers=1, timeout=1200)
    planf = os.path.join(wd, "plan.ndjson")
    with open(planf, "w") as f:
        for p in plan:
            f.write(json.dumps(p) + "\n")
    out = vlib.run_driver(drv, ["robust", "--plan", planf, "--out", trace, "--repo", vlib.REPO, "--timeout", "11"], timeout=3 * 3600, env=ctx.env())
    stats = dict(kv.split("=") for kv in out.strip().split()[1:])
    meta = {"stats": stats, "plan_lines": len(plan), "planner_states": r["states"], "planner_distinct": r["distinct"]}
    if ctx.only is None:
        # publish atomically (C08 and C09 may run side by side): fill a private directory, then rename it into place
        try:
            os.makedirs(CACHE, exist_ok=True)
            for d in os.listdir(CACHE):     # drop stale entries (other trees / seeds, interrupted writers)
                dp = os.path.join(CACHE, d)
                if d != key and time.time() - os.path.getmtime(dp) > 1800:
                    shutil.rmtree(dp, ignore_errors=True)
            tmpd = os.path.join(CACHE, "%s.tmp%d" % (key, os.getpid()))
            os.makedirs(tmpd, exist_ok=True)
            shutil.copy(trace, os.path.join(tmpd, "trace.ndjson"))
            json.dump(meta, open(os.path.join(tmpd, "meta.json"), "w"))
            if os.path.isdir(cdir):
                shutil.rmtree(tmpd, ignore_errors=True)
            else:
                os.rename(tmpd, cdir)
        except OSError:
            pass
    return trace, meta


def run_prop(ctx, prop, rule, assumptions):
    trace, meta = produce_trace(ctx)
    ctx.mc_states += meta["planner_distinct"]; ctx.mc_transitions += meta["planner_states"]
    ctx.mc_runs.append({"module": "Robust", "cfg": "planner", "generated": meta["planner_states"], "plan_lines": meta["plan_lines"]})
    shards = vlib.shard_trace(trace, ctx.wd, vlib.NCPU, max_bytes=8 << 20)
    val = vlib.validate(ctx.wd, "RobustTrace", shards, consts={"Prop": '"%s"' % prop}, timeout=3000)
    val["accepted_scenarios"] = val["accepted"]
    if any(i.startswith("INFRA") for i in val["infos"]):
        raise vlib.Infra("the scheduler skipped a case that is in C09's scope: " + "; ".join(val["infos"][:3]))
    classes, samples = set(), []
    with open(trace) as f:
        for line in f:
            if '"ev":"run"' not in line[:60]:
                continue
            e = json.loads(line)
            classes.add((e["api"], e["tpl"], e["outcome"], e["edit"].split("@")[0].split("=")[0]))
            if len(samples) < 3:
                samples.append(e)
    return ctx.finish(
        "exploration", val, evaluations=int(meta["stats"]["cases"]), samples=samples, rule=rule, assumptions=assumptions,
        extra={"driver_stats": meta["stats"], "plan_lines": meta["plan_lines"]}, distinct=len(classes))
