"""C12 - JPEG 2000 irreversible path: loss bounded by the declared quantisation steps."""
from checks import rtcommon


def run(ctx):
    args = (["--n", "500", "--maxdim", "64", "--exh", "1"] if ctx.quick else ["--n", "24000", "--maxdim", "96", "--exh", "2", "--big"])
    return rtcommon.run_contract(
        ctx, "c12", args, class_keys=("c", "p", "signed", "q", "levels", "cls"), trace_module="IrrTrace",
        rule="scenario = jpeg2000 Encoder/Decoder with Lossless=false, NumLayers=1, no rate target; round-robin P {8,12,16} x signed x "
             "components {1,3} x NumLevels 0..6, every Quality 1..100, code-blocks {16,32,64}, sizes up to the tier bound incl. 1..4 "
             "wide/high strips and images smaller than the filter support. TLC reads QCD/COD from the emitted stream "
             "(spec/J2kQuant.tla), computes sum_b D_b * G_b with conservative closed-form 9-7 synthesis gains in saturating integer "
             "arithmetic rounded up (through the absolute inverse ICT for 3 components) plus the fixed allowance, and checks every "
             "sample and the declared range. distinct_nontrivial = distinct (components, P, signed, quality, levels, class)",
        assumptions=["closed-form infinity-norm gains (A0 = 1.365088, A1 = 0.812893 per dimension and level) are used at all sizes; the "
                     "exact per-position gains by an independent inverse 9-7 are not reproduced (TLC has integers only)",
                     "fixed rounding allowance: 3 grey levels (+ 2^(P-13) above 13 bits); the check detects gross and moderate errors, "
                     "not deviations that stay inside the conservative bound"])
