"""C02 - JPEG Lossless (Process 14 predictors 1-7, auto, SV1): exact reconstruction."""
from checks import rtcommon


def run(ctx):
    args = (["--n", "2500", "--maxdim", "24", "--exh", "1"] if ctx.quick
            else ["--n", "160000", "--maxdim", "64", "--exh", "2", "--big"])
    return rtcommon.run_contract(
        ctx, "c02", args, class_keys=("api", "pred", "p", "c", "cls"),
        rule="scenario = lossless.Encode(pred 0..7) or lossless14sv1.Encode followed by the matching Decode; exhaustive: every "
             "image of the listed tiny sizes at P=2 (thorough: P=3 too) x predictors 0..7 + SV1; seeded: every precision 2..16 in "
             "turn x components {1,3} x 12 content classes incl. alternating extremes, full-range jumps and 'huffdeep' (Fibonacci "
             "category histogram with difference -32768). distinct_nontrivial = distinct (api, predictor, P, components, class)",
        assumptions=["decoded pixel buffers are unpacked into container words by the harness (8-bit for P<=8, 16-bit LE otherwise); "
                     "identity, geometry and precision are evaluated by TLC (ContractTrace.tla)"],
        mc_runs=[])
