"""Shared flow for the round-trip properties decided by ContractTrace.tla."""
import os, json
import vlib


def trace_classes(trace, keys):
    """Distinct tuples of cfg[keys] over recorded encodes (measured from the trace)."""
    seen = set()
    samples = []
    n = 0
    with open(trace) as f:
        for line in f:
            if '"ev":"cenc"' in line[:80]:
                n += 1
                i = line.find('"ts":')
                j = line.find('"src":')
                e = json.loads("{" + line[i:j].rstrip(",") + "}")
                pf = (e.get("params") or {}).get("fields") or {}
                info = e["info"]
                seen.add((e["ts"], info["ba"], info["bs"], info["spp"], info["pixrep"], (e.get("params") or {}).get("kind"),
                          pf.get("rate"), pf.get("numLayers"), pf.get("numLevels"), pf.get("blockWidth"), pf.get("blockHeight"), e.get("cls")))
                if len(samples) < 3:
                    samples.append(e)
                continue
            if '"ev":"enc"' not in line[:80]:
                continue
            n += 1
            # cfg is small and comes first; avoid parsing the big arrays
            i = line.find('"cfg":')
            j = line.find('}', i)
            cfg = json.loads(line[i + 6:j + 1])
            seen.add(tuple(cfg.get(k) for k in keys))
            if len(samples) < 3:
                e = json.loads(line)
                for k in ("src", "stream"):
                    if k in e and isinstance(e[k], list) and len(e[k]) > 48:
                        e[k] = e[k][:48] + ["... %d values" % len(e[k])]
                samples.append(e)
    return seen, samples, n


def run_contract(ctx, family, driver_args, class_keys, rule, assumptions, mc_runs=(), trace_module="ContractTrace",
                 level="model_checking", heap="3g", extra=None, side=None):
    wd = ctx.wd
    vlib.stage_specs(wd)
    drv = vlib.build_harness()
    for module, cfg in mc_runs:
        ctx.mc(module, cfg)
    trace = os.path.join(wd, "trace.ndjson")
    out = vlib.run_driver(drv, [family, "--out", trace, "--seed", str(ctx.seed)] + driver_args, env=ctx.env())
    stats = {}
    for kv in out.strip().split()[1:]:
        if "=" in kv:
            k, v = kv.split("=", 1)
            stats[k] = v
    shards = vlib.shard_trace(trace, wd, vlib.NCPU)
    val = vlib.validate(wd, trace_module, shards, heap=heap)
    classes, samples, nenc = trace_classes(trace, class_keys)
    ex = {"driver_stats": stats}
    if extra:
        ex.update(extra)
    if side:            # informational companion runs of a check (never part of the verdict)
        ex.update(side(ctx, wd, drv))
    return ctx.finish(level, val, evaluations=int(stats.get("scenarios", nenc)), samples=samples, rule=rule,
                      assumptions=assumptions, extra=ex, distinct=len(classes))
