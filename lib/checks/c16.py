"""C16 - every encoded frame is one well-formed, self-describing codestream."""
import os, json
import vlib


def run(ctx):
    wd = ctx.wd
    vlib.stage_specs(wd)
    drv = vlib.build_harness()
    # reverse direction (informational): tiny reversible codestreams written by the TLA+ reference encoder
    nsim = 30 if ctx.quick else 600
    scn, r = vlib.gen_scenarios(wd, "J2kGen", "J2kGen.cfg", workers=1, simulate="num=%d" % nsim, timeout=7200,
                                extra=["-seed", str(4000 + ctx.seed), "-depth", "10"])
    ctx.mc_states += r["states"]; ctx.mc_transitions += r["states"]
    ctx.mc_runs.append({"module": "J2kGen", "cfg": "simulate", "generated": r["states"], "streams": len(scn)})
    scnf = os.path.join(wd, "j2kgen.ndjson")
    with open(scnf, "w") as f:
        for s in scn:
            f.write(json.dumps(s) + "\n")
    trace = os.path.join(wd, "trace.ndjson")
    args = ["c16", "--scn", scnf, "--out", trace, "--seed", str(ctx.seed)] + (["--n", "120", "--maxdim", "40"] if ctx.quick else ["--n", "1500", "--maxdim", "96", "--big"])
    out = vlib.run_driver(drv, args, env=ctx.env())
    stats = dict(kv.split("=") for kv in out.strip().split()[1:])
    shards = vlib.shard_trace(trace, wd, vlib.NCPU, max_bytes=4 << 20)
    val = vlib.validate(wd, "MarkersTrace", shards, timeout=3000, heap="4g")
    classes, samples = set(), []
    with open(trace) as f:
        for line in f:
            if '"ev":"frame"' not in line[:60]:
                continue
            i = line.find('"cfg":'); j = line.find("}", i)
            c = json.loads(line[i + 6:j + 1])
            classes.add((c["api"], c["c"], c["p"], c["lossless"], c["ht"], c["tw"] > 0, c["layers"] > 1, c["prog"]))
            if len(samples) < 2:
                e = json.loads(line)
                e["stream"] = e["stream"][:64] + ["..."]
                samples.append(e)
    val["accepted_scenarios"] = val["accepted"]
    pk = {"parsed": 0, "skipped": 0, "unparsed": 0, "ragree": 0, "rdiffer": 0, "tagree": 0, "tdiffer": 0}
    for i in val["infos"]:
        if i.startswith("pk "):
            for kv in i.split()[1:]:
                k, v = kv.split("=")
                pk[k] += int(v)
    return ctx.finish(
        "model_checking", val, evaluations=int(stats["scenarios"]), samples=samples,
        rule="scenario = one Encode of baseline / extended 8+12 / lossless 0..7 / SV1 / JPEG-LS lossless+near / JPEG 2000 reversible, "
             "irreversible, tiled (up to 64 tiles), layered, rate-targeted, all progressions, HT block coder; noise-weighted content; "
             "dimensions needing both size bytes (256, 257, 4096, 65535 with the other dimension small). The strict walkers of "
             "spec/Markers.tla accept the stream and the header must declare the request. JPEG 2000 streams are also read packet by "
             "packet by the strict T.800 B.10 reader of spec/PacketHeader.tla (geometry, tag trees, pass counts, Lblock, lengths, bit "
             "stuffing, all five progressions); it is used to name one listed defect - a packet header ending in 0xFF without the "
             "stuffed byte - on streams with plain packet structure (a family of single-code-block noise images puts header ends on "
             "0xFF); packet_reader = how many streams it parsed completely / skipped (HT) / could not follow (user-defined precincts, "
             "tile-local geometry, empty sub-bands: counted, not judged). distinct_nontrivial = distinct (api, "
             "components, precision, lossless, HT, tiled, layered, progression)",
        assumptions=["spec/Markers.tla is a faithful transcription of T.81 Annex B, T.87 Annex C, T.800 Annex A marker syntax",
                     "the walkers check framing and header fields; the entropy-coded payload is only checked for marker codes"],
        extra={"driver_stats": stats, "packet_reader": {k: pk[k] for k in ("parsed", "skipped", "unparsed")},
               "reference_encoder_streams": {"single_tile": {"library_decodes_exactly": pk["ragree"], "differs": pk["rdiffer"]},
                                             "tiled": {"library_decodes_exactly": pk["tagree"], "differs": pk["tdiffer"]},
                                             "samples": [i for i in val["infos"] if i.startswith("library decoder does not")][:3]}},
        distinct=len(classes))
