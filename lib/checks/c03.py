"""C03 - JPEG-LS lossless: exact reconstruction at every bit depth."""
from checks import rtcommon


def run(ctx):
    args = (["--n", "2500", "--maxdim", "24", "--exh", "1"] if ctx.quick
            else ["--n", "160000", "--maxdim", "64", "--exh", "2", "--big"])
    return rtcommon.run_contract(
        ctx, "c03", args, class_keys=("p", "c", "cls"),
        rule="scenario = jpegls/lossless.Encode then Decode; exhaustive: all images up to 3x2/2x3 at P=2 and all 2-sample images at "
             "P=4 (thorough: all 3x3 at P=2, all 2x2 at P=4); seeded: every precision 2..16 in turn x components {1,3} x 13 content "
             "classes (noise, two-level, runs with rare interruptions, runs ending at the line end, width-1 images, full-range jumps). "
             "distinct_nontrivial = distinct (P, components, class)",
        assumptions=["decoded pixel buffers are unpacked into container words by the harness; identity and geometry are evaluated by TLC"])
