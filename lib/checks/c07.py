"""C07 - JPEG-LS near-lossless: every reconstructed sample within NEAR of the original."""
from checks import rtcommon


def run(ctx):
    args = (["--n", "2500", "--maxdim", "24", "--exh", "1"] if ctx.quick
            else ["--n", "160000", "--maxdim", "64", "--exh", "2", "--big"])
    return rtcommon.run_contract(
        ctx, "c07", args, class_keys=("p", "c", "near", "cls"),
        rule="scenario = nearlossless.Encode(NEAR) then Decode; sweep: every P in 2..16 x every NEAR in 0..min(255,MAXVAL/2) "
             "(quick: every 5th NEAR above 3, plus the maximum), seeded: emphasis on NEAR in {0,1,2,3,7,8,25,max} with NEAR-aware "
             "content (samples within NEAR of 0/MAXVAL, ramps of step 2N+1 and 2N, slow ramps, saturated spikes on a dark "
             "background), exhaustive tiny images at P=2 (thorough: P=3, NEAR 0..3). TLC evaluates |out-src| <= NEAR and the range "
             "per sample. distinct_nontrivial = distinct (P, components, NEAR, class)",
        assumptions=["decoded pixel buffers are unpacked into container words by the harness; bound, range, NEAR and geometry are evaluated by TLC"])
