"""Shared machinery for /verif/bin/check.

Pipeline (DESIGN.md section 2.1): build -> mc -> gen+run -> validate -> verdict -> evidence.
Every verdict is a TLC verdict on a trace of the real code; this module only moves files,
starts processes and parses TLC's output.
"""
import json, os, re, shutil, subprocess, sys, time, hashlib, glob

ROOT = os.path.dirname(os.path.dirname(os.path.abspath(__file__)))
REPO = os.environ.get("VERIF_REPO", "/repo")
SPEC = os.path.join(ROOT, "spec")
HARNESS = os.path.join(ROOT, "harness")
BUILD = os.path.join(ROOT, ".build")
WORKROOT = os.path.join(ROOT, ".work")
TLA_CP = "/opt/veriftools/tla/tla2tools.jar:/opt/veriftools/tla/CommunityModules-deps.jar"
NCPU = os.cpu_count() or 4

EXIT_OK, EXIT_VIOLATION, EXIT_INFRA = 0, 1, 2


class Infra(Exception):
    """Failure of the checker itself (never a property violation)."""


def log(*a):
    print("[check]", *a, file=sys.stderr, flush=True)


def goenv():
    e = dict(os.environ)
    e["GOFLAGS"] = "-mod=mod"
    e["GOPROXY"] = "off"
    e.pop("GOTOOLCHAIN", None)   # must stay "auto": the repo needs the cached go1.25 toolchain
    e.pop("GOSUMDB", None)
    return e


def workdir(prop, fresh=True):
    d = os.path.join(WORKROOT, prop)
    if fresh and os.path.isdir(d):
        shutil.rmtree(d, ignore_errors=True)
    os.makedirs(d, exist_ok=True)
    return d


_BUILT = []


def build_harness(race=False):
    """go build the driver against /repo's *current working tree* (replace directive)."""
    return _build_harness(race)


def _build_harness(race=False):
    os.makedirs(BUILD, exist_ok=True)
    gosum = os.path.join(REPO, "go.sum")
    if os.path.exists(gosum):
        shutil.copy(gosum, os.path.join(HARNESS, "go.sum"))
    # every invocation gets its own binary (checks may run side by side; a binary that is being executed must never be
    # rewritten): built under a temporary name, then moved to a name that carries the process id
    name = "vdrive-race" if race else "vdrive"
    tmp = os.path.join(BUILD, "%s.%d.tmp" % (name, os.getpid()))
    out = os.path.join(BUILD, "%s.%d" % (name, os.getpid()))
    modargs = []
    if os.path.realpath(REPO) != "/repo":
        # VERIF_REPO: build against another checkout (seeded-change drills work on a scratch worktree, never on /repo):
        # a private module file whose replace directive points there
        alt = os.path.join(HARNESS, "go.alt%d.mod" % os.getpid())
        with open(os.path.join(HARNESS, "go.mod")) as f, open(alt, "w") as g:
            g.write(f.read().replace("=> /repo", "=> " + os.path.realpath(REPO)))
        shutil.copy(os.path.join(HARNESS, "go.sum"), alt[:-4] + ".sum")
        modargs = ["-modfile", alt]
        _BUILT.extend([alt, alt[:-4] + ".sum"])
    cmd = ["go", "build", "-tags", "verif"] + modargs + (["-race"] if race else []) + ["-o", tmp, "./cmd/vdrive"]
    t = time.time()
    p = subprocess.run(cmd, cwd=HARNESS, env=goenv(), capture_output=True, text=True)
    if p.returncode != 0:
        raise Infra("harness build failed:\n" + p.stdout + p.stderr)
    os.replace(tmp, out)
    try:   # a stable name for tools and people (bin/setup, debugging); never executed by the checks
        shutil.copy(out, os.path.join(BUILD, name + ".new"))
        os.replace(os.path.join(BUILD, name + ".new"), os.path.join(BUILD, name))
    except OSError:
        pass
    _BUILT.append(out)
    log("built %s in %.1fs" % (name, time.time() - t))
    return out


def remove_built():
    for f in _BUILT:
        try:
            os.remove(f)
        except OSError:
            pass


def stage_specs(wd):
    """Copy all TLA+ modules next to the per-run cfg files (TLC litters its cwd)."""
    for f in glob.glob(os.path.join(SPEC, "*.tla")) + glob.glob(os.path.join(SPEC, "*.cfg")):
        shutil.copy(f, wd)


_STATS = re.compile(r"(\d+) states generated, (\d+) distinct states found")


def tlc(wd, module, cfg, workers=1, timeout=600, extra=None, heap="4g", simulate=None, tag=None, dfs=False):
    """Run TLC on wd/module.tla with wd/cfg. Returns dict(rc, out, states, distinct, wall)."""
    tag = tag or cfg.replace(".cfg", "")
    meta = os.path.join(wd, "meta_" + tag)
    shutil.rmtree(meta, ignore_errors=True)
    jopts = ["-Xss1g", "-Xmx" + heap, "-XX:+UseParallelGC"]
    if dfs:
        jopts.append("-Dtlc2.tool.queue.IStateQueue=StateDeque")
    cmd = ["timeout", str(timeout), "java"] + jopts + ["-cp", TLA_CP, "tlc2.TLC",
           "-workers", str(workers), "-metadir", meta, "-config", cfg, "-noGenerateSpecTE"]
    if simulate:
        cmd += ["-simulate", simulate]
    cmd += (extra or []) + [module]
    t = time.time()
    env = dict(os.environ)
    env.pop("JAVA_TOOL_OPTIONS", None)
    p = subprocess.run(cmd, cwd=wd, capture_output=True, text=True, env=env, errors="replace")
    wall = time.time() - t
    out = p.stdout + p.stderr
    with open(os.path.join(wd, tag + ".tlc.out"), "w") as f:
        f.write(out)
    shutil.rmtree(meta, ignore_errors=True)
    m = None
    for m in _STATS.finditer(out):
        pass
    states = int(m.group(1)) if m else 0
    distinct = int(m.group(2)) if m else 0
    return {"rc": p.returncode, "out": out, "states": states, "distinct": distinct, "wall": wall,
            "cmd": " ".join(cmd[2:])}


def mc(wd, module, cfg, workers=None, timeout=900, coverage=False, heap="8g"):
    """Model-check a specification; an error here is a spec/infra problem (exit 2), never a VIOLATION."""
    r = tlc(wd, module, cfg, workers=workers or NCPU, timeout=timeout,
            extra=(["-coverage", "1"] if coverage else None), heap=heap)
    if r["rc"] != 0 or "Model checking completed. No error has been found." not in r["out"]:
        tail = "\n".join(r["out"].splitlines()[-40:])
        raise Infra("model checking of %s/%s failed (rc=%d):\n%s" % (module, cfg, r["rc"], tail))
    log("MC %s/%s: %d states, %d distinct, %.1fs" % (module, cfg, r["states"], r["distinct"], r["wall"]))
    return r


_PRINT = re.compile(r'^"@@(SCN|REJECT|INFO|CLASSES|ACCEPT|DONE)\|(.*)"$')


def parse_prints(out):
    """Lines printed by PrintT("@@KIND|payload") -> list of (kind, payload).

    Every machine-readable line is ONE TLA+ string: TLC never wraps a string, whereas it
    pretty-prints long tuples over several lines."""
    res = []
    for line in out.splitlines():
        m = _PRINT.match(line.strip())
        if m:
            res.append((m.group(1), m.group(2).replace('\\"', '"').replace("\\\\", "\\")))
    return res


def tla_unquote(s):
    """TLC prints strings with \\" escapes; ToJson payloads arrive as one TLA+ string literal."""
    s = s.strip()
    if s.startswith('"') and s.endswith('"'):
        s = s[1:-1]
    return s.replace('\\"', '"').replace("\\\\", "\\")


def gen_scenarios(wd, module, cfg, workers=None, timeout=600, simulate=None, heap="8g", extra=None):
    """Run a generator spec; returns (list of scenario dicts, tlc result)."""
    r = tlc(wd, module, cfg, workers=workers or NCPU, timeout=timeout, simulate=simulate, heap=heap, extra=extra)
    if r["rc"] not in (0,) and "Model checking completed" not in r["out"] and not simulate:
        tail = "\n".join(r["out"].splitlines()[-30:])
        raise Infra("scenario generation %s/%s failed (rc=%d):\n%s" % (module, cfg, r["rc"], tail))
    scn = []
    for kind, payload in parse_prints(r["out"]):
        if kind == "SCN":
            try:
                scn.append(json.loads(payload))
            except Exception as e:  # pragma: no cover
                raise Infra("unparseable scenario line: %r (%s)" % (payload[:200], e))
    log("GEN %s/%s: %d scenarios, %d states, %.1fs" % (module, cfg, len(scn), r["states"], r["wall"]))
    return scn, r


def run_driver(binary, args, timeout=3600, stdin=None, env=None):
    t = time.time()
    p = subprocess.run([binary] + args, capture_output=True, text=True, timeout=timeout, input=stdin,
                       env=env, errors="replace")
    if p.returncode != 0:
        raise Infra("driver %s failed rc=%d:\n%s" % (" ".join(args[:4]), p.returncode, (p.stdout + p.stderr)[-3000:]))
    log("driver %s: %.1fs %s" % (args[0], time.time() - t, p.stdout.strip().splitlines()[-1] if p.stdout.strip() else ""))
    return p.stdout


def shard_trace(path, wd, nshards, prefix="shard", max_bytes=24 << 20):
    """Cut an ndjson trace into shards at scenario boundaries ("reset" events)."""
    size = os.path.getsize(path)
    n = max(1, min(nshards, 1 + size // (64 << 10)))
    n = max(n, 1 + size // max_bytes)
    target = size / n
    files, cur, curbytes, idx = [], None, 0, 0
    with open(path, "rb") as f:
        for line in f:
            if not line.strip():
                continue
            is_reset = b'"ev":"reset"' in line[:200]
            if cur is None or (is_reset and curbytes >= target):
                if cur:
                    cur.close()
                fn = os.path.join(wd, "%s_%03d.ndjson" % (prefix, idx))
                idx += 1
                cur = open(fn, "wb")
                files.append(fn)
                curbytes = 0
            cur.write(line)
            curbytes += len(line)
    if cur:
        cur.close()
    return files


def _count_lines(fn):
    with open(fn, "rb") as f:
        return sum(1 for _ in f)


def validate(wd, trace_module, trace_files, consts=None, timeout=1800, parallel=None, heap="3g", invariants=None):
    """Check every trace shard with its own single-worker TLC running <trace_module>.tla.

    Returns dict(rejects=[{shard, scn, k, key, raw}], states, transitions, lines, infos)."""
    import concurrent.futures as cf
    parallel = parallel or NCPU
    consts = consts or {}

    def one(i_fn):
        i, fn = i_fn
        cfg = "%s_%03d.cfg" % (trace_module, i)
        lines = _count_lines(fn)
        with open(os.path.join(wd, cfg), "w") as f:
            f.write("SPECIFICATION TraceSpec\nCHECK_DEADLOCK FALSE\nCONSTANTS\n")
            f.write('  TraceFile = "%s"\n' % fn)
            for k, v in consts.items():
                f.write("  %s = %s\n" % (k, v))
            for inv in (invariants or []):
                f.write("INVARIANT %s\n" % inv)
        r = tlc(wd, trace_module, cfg, workers=1, timeout=timeout, heap=heap, tag="%s_%03d" % (trace_module, i))
        return i, fn, lines, r

    res = {"rejects": [], "states": 0, "transitions": 0, "lines": 0, "infos": [], "classes": set(), "accepted": 0}
    with cf.ThreadPoolExecutor(max_workers=parallel) as ex:
        for i, fn, lines, r in ex.map(one, list(enumerate(trace_files))):
            out = r["out"]
            done = re.search(r'"@@DONE\|(\d+)"', out)
            if r["rc"] != 0 or not done or int(done.group(1)) != lines:
                tail = "\n".join(out.splitlines()[-40:])
                raise Infra("trace validation of %s did not consume the whole trace (rc=%d, done=%s, lines=%d):\n%s"
                            % (fn, r["rc"], done.group(1) if done else None, lines, tail))
            res["states"] += r["distinct"]
            res["transitions"] += r["states"]
            res["lines"] += lines
            for kind, payload in parse_prints(out):
                if kind == "REJECT":
                    res["rejects"].append({"shard": fn, "raw": payload})
                elif kind == "INFO":
                    res["infos"].append(payload)
                elif kind == "CLASSES":
                    for c in payload.split(";"):
                        if c:
                            res["classes"].add(c)
                elif kind == "ACCEPT":
                    try:
                        res["accepted"] += int(payload)
                    except ValueError:
                        pass
    return res


_REJ = re.compile(r'^(-?\d+)\|(-?\d+)\|([^|]*)(?:\|(.*))?$')


def parse_reject(raw):
    """REJECT payload: scn|k|key|detail  ->  dict."""
    m = _REJ.match(raw)
    if not m:
        return {"scn": -1, "k": -1, "key": "unparsed", "detail": raw}
    return {"scn": int(m.group(1)), "k": int(m.group(2)), "key": m.group(3), "detail": m.group(4) or ""}


def load_known():
    p = os.path.join(ROOT, "known_findings.json")
    if not os.path.exists(p):
        return []
    return json.load(open(p))["findings"]


def verdict(prop, rejects, scenario_lookup=None, extra_replay=None):
    """Print KNOWN-FINDING / VIOLATION lines. Returns (n_violations, n_known)."""
    known = [k for k in load_known() if k["property"] == prop and k.get("status") == "known"]
    by_key = {}
    for r in rejects:
        by_key.setdefault(r["key"], []).append(r)
    nviol = nknown = 0
    rdir = os.path.join(ROOT, "replay", prop)
    for key, rs in sorted(by_key.items()):
        kf = next((k for k in known if k["key"] == key), None)
        if kf:
            nknown += len(rs)
            print("KNOWN-FINDING: property=%s key=%s count=%d %s" % (prop, key, len(rs), kf["what"]), flush=True)
            continue
        os.makedirs(rdir, exist_ok=True)
        for r in rs[:5]:
            nviol += 1
            name = re.sub(r"[^A-Za-z0-9_.-]+", "_", "%s_scn%s" % (key, r["scn"]))[:120] + ".json"
            path = os.path.join(rdir, name)
            rec = {"property": prop, "key": key, "reject": r}
            if scenario_lookup:
                try:
                    rec["scenario"] = scenario_lookup(r)
                except Exception as e:  # pragma: no cover
                    rec["scenario_error"] = str(e)
            if extra_replay:
                rec.update(extra_replay)
            with open(path, "w") as f:
                json.dump(rec, f, indent=1, default=str)
            print("VIOLATION property=%s replay=%s" % (prop, path), flush=True)
            print("  key=%s scn=%s k=%s %s" % (key, r["scn"], r["k"], str(r.get("detail", ""))[:300]), flush=True)
        if len(rs) > 5:
            nviol += len(rs) - 5
            print("  (+%d more rejected scenarios with key %s)" % (len(rs) - 5, key), flush=True)
    return nviol, nknown


def write_evidence(prop, tier, seed, level, coverage, assumptions, wall, violations):
    os.makedirs(os.path.join(ROOT, "evidence"), exist_ok=True)
    ev = {"property_id": prop, "tier": tier, "seed": int(seed), "level": level, "coverage": coverage,
          "assumptions": assumptions, "wall_s": round(wall, 2), "violations": int(violations)}
    p = os.path.join(ROOT, "evidence", prop + ".json")
    with open(p, "w") as f:
        json.dump(ev, f, indent=1, default=str)
    return p


def cleanup(wd):
    if os.environ.get("VERIF_KEEP"):
        return
    shutil.rmtree(wd, ignore_errors=True)


class Ctx:
    """One run of one check."""

    def __init__(self, prop, tier, seed, wd, replay=None):
        self.prop, self.tier, self.seed, self.wd, self.replay = prop, tier, seed, wd, replay
        self.t0 = time.time()
        self.quick = tier == "quick"
        self.mc_states = 0
        self.mc_transitions = 0
        self.mc_runs = []
        self.only = None
        if replay:
            rec = json.load(open(replay))
            self.only = rec.get("reject", {}).get("scn")
            self.seed = rec.get("seed", seed)
            self.tier = rec.get("tier", tier)
            self.quick = self.tier == "quick"

    def env(self):
        e = dict(os.environ)
        if self.only is not None:
            e["VERIF_ONLY"] = str(self.only)
        return e

    def mc(self, module, cfg, **kw):
        r = mc(self.wd, module, cfg, **kw)
        self.mc_states += r["distinct"]
        self.mc_transitions += r["states"]
        self.mc_runs.append({"module": module, "cfg": cfg, "generated": r["states"], "distinct": r["distinct"], "wall_s": round(r["wall"], 1)})
        return r

    def finish(self, level, val, evaluations, samples, rule, assumptions, extra=None, distinct=None, exhaustive=False):
        """Common tail: verdict lines, evidence file, exit code."""
        rejects = [dict(parse_reject(r["raw"]), shard=r["shard"]) for r in val["rejects"]]
        nviol, nknown = verdict(self.prop, rejects, extra_replay={"seed": self.seed, "tier": self.tier})
        cov = {
            "states": self.mc_states + val["states"],
            "transitions": self.mc_transitions + val["transitions"],
            "traces_validated_against_impl": int(val.get("accepted_scenarios", val.get("accepted", 0))),
            "samples": samples[:5],
            "evaluations": int(evaluations),
            "distinct_nontrivial": int(distinct if distinct is not None else len(val.get("classes", []))),
            "rule": rule,
            "exhaustive": bool(exhaustive),
            "model_checking_runs": self.mc_runs,
            "trace_events_validated": val["lines"],
            "rejected_known": nknown,
            "rejected_unlisted": nviol,
            "checker_cmd": "bin/check %s --tier %s" % (self.prop, self.tier),
        }
        if extra:
            cov.update(extra)
        write_evidence(self.prop, self.tier, self.seed, level, cov, assumptions, time.time() - self.t0, nviol)
        return EXIT_VIOLATION if nviol else EXIT_OK
