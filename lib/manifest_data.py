"""Texts for MANIFEST.json (bin/mkmanifest). One entry per claimed property."""

HOOK_COMMITS = []   # commits in /repo that add `//go:build verif` files (none needed so far)

NOTES = ("Every check: bin/check <id> --tier quick|thorough; honours VERIF_SEED; rebuilds the driver from /repo's working tree "
         "(go build -tags verif, replace directive). Verdicts are TLC verdicts on ndjson traces of the real library; "
         "genuine defects of the pinned tree are in known_findings.json (status known -> KNOWN-FINDING line, exit 0; "
         "status fixed -> suppresses nothing). Exit 2 = checker failure, never a VIOLATION.")

ENGINES = [
    {"name": "contract", "path": "spec/Contract.tla spec/ContractTrace.tla spec/TileGrid.tla",
     "serves_properties": ["C02", "C03", "C04", "C05", "C06", "C07", "C19"],
     "kind_free_text": "TLA+ trace specification of the abstract codec channel (identity / value identity / NEAR bound / byte identity, "
                       "geometry), with T.800 Annex B tile geometry for classification; TLC validates ndjson traces of the real codecs"},
    {"name": "rle", "path": "spec/PackBits.tla spec/RleFrame.tla spec/RleTrace.tla spec/MC_PackBits.tla",
     "serves_properties": ["C01"],
     "kind_free_text": "PS3.5 Annex G as TLA+: PackBits reader, encoder state machine with scaled packet limit (model-checked), "
                       "byte-plane mapping and header grammar; trace validation of rle.Codec"},
    {"name": "framemap", "path": "spec/FrameMap.tla spec/FrameMapSim.tla spec/FrameMapTrace.tla",
     "serves_properties": ["C10"],
     "kind_free_text": "call-history specification: TLC enumerates/simulates histories, trace spec checks every call against the memo "
                       "defined by solo executions"},
]

A_CONTRACT = ("TLC 1.8.0 and the CommunityModules Json reader are trusted; pixel buffers are unpacked to container words and "
              "large frames digested (SHA-256) by the Go harness, everything else is evaluated by TLC on the trace")

CHECKS = {
    "C01": dict(engine="rle", level="model_checking", design_ref="DESIGN.md 7/C01",
                technique="TLC model checking of the PackBits machine + TLC trace validation against an Annex G reader",
                text="The PackBits encoder design is model-checked exhaustively (all strings <= 8/10 over 3 symbols, scaled packet "
                     "limits 3/4 so every split point is reachable); every behaviour of the real-constant machine is replayed into "
                     "rle.Codec for every matching frame description, plus seeded frames on the 2/3,127..130,255..258 boundaries; "
                     "each Encode/Decode is accepted only if an independent Annex G reader written in TLA+ recovers the byte planes "
                     "and the header grammar holds.",
                note=A_CONTRACT + "; frames > 128 KiB by digest"),
    "C02": dict(engine="contract", level="model_checking", design_ref="DESIGN.md 7/C02",
                technique="TLC trace validation of exhaustive small images and seeded content classes",
                text="Exhaustive tiny images at P=2 (thorough: P=3) through predictors 0..7 and SV1, every precision 2..16, alternating "
                     "extremes, difference -32768 and deep-Huffman histograms; TLC checks sample identity and reported geometry on every "
                     "recorded Encode/Decode. The Huffman/predictor mechanism specifications (C13) are the model-checked part.",
                note=A_CONTRACT),
    "C03": dict(engine="contract", level="model_checking", design_ref="DESIGN.md 7/C03",
                technique="TLC trace validation of exhaustive small images and seeded content classes",
                text="All images up to 3x2 at P=2 and 2-sample images at P=4 (thorough: 3x3 at P=2, 2x2 at P=4), every precision 2..16, "
                     "13 content classes incl. run/interruption/line-end/width-1 cases; TLC checks identity and geometry per call. "
                     "The T.87 mechanism specification (C14) is the model-checked part.",
                note=A_CONTRACT),
    "C04": dict(engine="contract", level="model_checking", design_ref="DESIGN.md 7/C04",
                technique="TLC trace validation over a randomised configuration lattice + TileGrid model checking",
                text="Round-robin/random sweep of components 1..4 x P 1..16 x signedness x levels 0..6 x 22 code-block shapes x "
                     "precincts x 5 progressions x layers 1..6 x MCT, size grids and code-block-boundary sizes with noise; a 'lenff' "
                     "family places packet-header ends on 0xFF; TLC checks value identity and geometry/precision/signedness.",
                note=A_CONTRACT + "; T1/T2 internals are exercised through the round trip only"),
    "C05": dict(engine="contract", level="model_checking", design_ref="DESIGN.md 7/C05",
                technique="TLC trace validation of registry-codec round trips over accepted parameter objects",
                text="Registered .90/.92 codecs with nil/default/typed/generic parameter objects satisfying the property's premise, "
                     "FrameInfo grid (BitsStored 2..16, SPP 1/3, signed), widths 1..40 x heights 1..80; TLC checks frame count and "
                     "byte identity.",
                note=A_CONTRACT),
    "C06": dict(engine="contract", level="model_checking", design_ref="DESIGN.md 7/C06",
                technique="TLC trace validation of registry-codec round trips",
                text="Registered .201/.202 codecs over a Rows x Columns grid incl. 1-wide/high images, block sizes 4..64, levels 0..6, "
                     "BitsStored <= BitsAllocated, signed/unsigned; TLC checks byte identity; known finding keyed by a predicate TLC "
                     "evaluates from the stream's COD marker.",
                note=A_CONTRACT + "; the HT cleanup pass is not transcribed; third-party fixtures: see DESIGN.md"),
    "C07": dict(engine="contract", level="model_checking", design_ref="DESIGN.md 7/C07",
                technique="TLC evaluates the per-sample NEAR bound and range on traces",
                text="Every P in 2..16 x NEAR sweep, NEAR-aware content (range ends, ramps of step 2N+1/2N, slow RGB ramps, saturated "
                     "spikes), exhaustive tiny images; TLC evaluates |out-src| <= NEAR, 0 <= out <= MAXVAL, reported NEAR and geometry.",
                note=A_CONTRACT),
    "C10": dict(engine="framemap", level="model_checking", design_ref="DESIGN.md 7/C10",
                technique="TLC-enumerated call histories replayed into the codecs; TLC trace validation against a solo-execution memo",
                text="Every history of 2 operations over frame sequences of length 1..2 (thorough 1..3) x 3 frames x 2 parameter "
                     "objects, simulated longer histories, on 14 syntaxes x FrameInfo variants and on reused jpeg2000.Decoder objects; "
                     "each call must equal the memo frame by frame, leave caller buffers unchanged, and have the contractual size.",
                note=A_CONTRACT + "; outputs compared by SHA-256 + length"),
    "C19": dict(engine="contract", level="model_checking", design_ref="DESIGN.md 7/C19",
                technique="TLC model checking of T.800 Annex B geometry + TLC trace validation of tiled round trips",
                text="TileGrid (tiles partition the image, sub-bands partition the tile-component, two formulations of B.5 agree) is "
                     "model-checked for all W,H <= 8/12; every (W,H,TW,TH) grid up to 6/12 and seeded grids up to 600 are replayed; "
                     "TLC checks identity and classifies rejections by whether tile-local and absolute geometry coincide.",
                note=A_CONTRACT + "; most grids fall under a known finding (encoder ignores the tile origin)"),
}

_PENDING = "check not built yet at this commit (construction order in DESIGN.md section 10); no claim is made"
NOT_APPLICABLE = {p: _PENDING for p in ["C08", "C09", "C11", "C12", "C13", "C14", "C15", "C16", "C17", "C18", "C20"]}

