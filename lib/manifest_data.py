"""Texts for MANIFEST.json (bin/mkmanifest). One entry per claimed property."""

HOOK_COMMITS = ["32b2fed"]   # commits in /repo that add `//go:build verif` files (jpeg2000/mqc/verif_export.go: MQ coder register accessors)

NOTES = ("Every check: bin/check <id> --tier quick|thorough; honours VERIF_SEED; rebuilds the driver from /repo's working tree "
         "(go build -tags verif, replace directive). Verdicts are TLC verdicts on ndjson traces of the real library; "
         "genuine defects of the pinned tree are in known_findings.json (status known -> KNOWN-FINDING line, exit 0; "
         "status fixed -> suppresses nothing). Exit 2 = checker failure, never a VIOLATION.")

ENGINES = [
    {"name": "contract", "path": "spec/Contract.tla spec/ContractTrace.tla spec/TileGrid.tla spec/Mel.tla spec/MC_Mel.tla spec/MelTrace.tla",
     "serves_properties": ["C02", "C03", "C04", "C05", "C06", "C07", "C19"],
     "kind_free_text": "TLA+ trace specification of the abstract codec channel (identity / value identity / NEAR bound / byte identity, "
                       "geometry), with T.800 Annex B tile geometry for classification; TLC validates ndjson traces of the real codecs"},
    {"name": "rle", "path": "spec/PackBits.tla spec/RleFrame.tla spec/RleTrace.tla spec/MC_PackBits.tla",
     "serves_properties": ["C01"],
     "kind_free_text": "PS3.5 Annex G as TLA+: PackBits reader, encoder state machine with scaled packet limit (model-checked), "
                       "byte-plane mapping and header grammar; trace validation of rle.Codec"},
    {"name": "framemap", "path": "spec/FrameMap.tla spec/FrameMapSim.tla spec/FrameMapTrace.tla",
     "serves_properties": ["C10"],
     "kind_free_text": "call-history specification: TLC enumerates/simulates histories, trace spec checks every call against the memo "
                       "defined by solo executions"},
    {"name": "jpegls", "path": "spec/JpegLS.tla spec/MC_JpegLS.tla spec/MC_JpegLS_h3.tla spec/JlsTrace.tla",
     "serves_properties": ["C14"],
     "kind_free_text": "ITU-T T.87 encoder and decoder as explicit TLA+ machines (contexts, bias, Golomb, run mode, ILV none/line/sample, "
                       "marker grammar); model-checked against each other; trace validation of the library's streams and decodes"},
    {"name": "jpeglossless", "path": "spec/JpegLossless.tla spec/MC_JpegLossless.tla spec/JllGen.tla spec/JllTrace.tla",
     "serves_properties": ["C13"],
     "kind_free_text": "ITU-T T.81 Annex C/F/H lossless process (Huffman tables, DECODE/EXTEND, predictors, edge rules, stuffing, "
                       "SOF3/DHT/SOS grammar) as TLA+; reference encoder generates streams by simulation; trace validation both ways"},
    {"name": "markers", "path": "spec/Markers.tla spec/PacketHeader.tla spec/J2kEnc.tla spec/J2kGen.tla spec/MarkersTrace.tla spec/MQ.tla spec/MC_MQ.tla spec/MqTrace.tla",
     "serves_properties": ["C16", "C20"],
     "kind_free_text": "T.81 B / T.87 C / T.800 A marker-segment grammars as a TLA+ walker; T.800 Annex C MQ coder machine; "
                       "TLC validates every stream the encoders emit and every MQ register trajectory"},
    {"name": "dwt", "path": "spec/Dwt53.tla spec/MC_Dwt53.tla spec/T1.tla spec/MC_T1.tla spec/T1Gen.tla spec/C20Trace.tla",
     "serves_properties": ["C20"],
     "kind_free_text": "T.800 Annex F 5/3 lifting with absolute-coordinate symmetric extension, multi-level Mallat layout, Annex G RCT; "
                       "perfect reconstruction model-checked; trace validation of wavelet/colorspace/t1 calls"},
    {"name": "robust", "path": "spec/Robust.tla spec/RobustTrace.tla",
     "serves_properties": ["C08", "C09"],
     "kind_free_text": "TLC plans grammar-aware edits of valid template streams (through Markers.tla) and validates the outcome trace "
                       "(no panic; time and memory against declared sizes computed by the spec)"},
    {"name": "args", "path": "spec/Args.tla spec/ArgsGen.tla spec/ArgsTrace.tla",
     "serves_properties": ["C17"],
     "kind_free_text": "argument-space specification of the encoders (Representable / Sane); TLC generates tuples, trace spec checks the "
                       "reject-or-round-trip contract"},
    {"name": "sharedmem", "path": "spec/SharedMem.tla spec/ConcTrace.tla",
     "serves_properties": ["C18"],
     "kind_free_text": "interleaving model over the package-level mutable state extracted from /repo's source (go/ast), model-checked "
                       "for write/any overlaps; -race executions of TLC-scheduled concurrent calls validated against solo results"},
    {"name": "lossybounds", "path": "spec/JpegDCT.tla spec/DctTrace.tla spec/J2kQuant.tla spec/IrrTrace.tla",
     "serves_properties": ["C11", "C12"],
     "kind_free_text": "error bounds derived in TLA+ from the quantisation the stream declares (DQT tables x IDCT/colour gains; QCD step "
                       "sizes x 9-7 synthesis gains); TLC evaluates them on round-trip traces"},
    {"name": "jpegseq", "path": "spec/JpegSeq.tla spec/MC_JpegSeq.tla spec/JpegSeqGen.tla spec/InteropTrace.tla",
     "serves_properties": ["C15"],
     "kind_free_text": "T.81 baseline sequential entropy coder (MCU traversal for H,V sampling, DC prediction with restart intervals, "
                       "AC run/size with ZRL/EOB, Huffman, stuffing, marker segments) as encoder machine + F.2.2 decoder; model-checked; "
                       "the encoder machine generates interchange streams for the library's decoders; trace spec compares with image/jpeg"},
]

A_CONTRACT = ("TLC 1.8.0 and the CommunityModules Json reader are trusted; pixel buffers are unpacked to container words and "
              "large frames digested (SHA-256) by the Go harness, everything else is evaluated by TLC on the trace")

CHECKS = {
    "C01": dict(engine="rle", level="model_checking", design_ref="DESIGN.md 7/C01",
                technique="TLC model checking of the PackBits machine + TLC trace validation against an Annex G reader",
                text="The PackBits encoder design is model-checked exhaustively (all strings <= 8/10 over 3 symbols, scaled packet "
                     "limits 3/4 so every split point is reachable); every behaviour of the real-constant machine is replayed into "
                     "rle.Codec for every matching frame description, plus seeded frames on the 2/3,127..130,255..258 boundaries; "
                     "each Encode/Decode is accepted only if an independent Annex G reader written in TLA+ recovers the byte planes "
                     "and the header grammar holds.",
                note=A_CONTRACT + "; frames > 128 KiB by digest"),
    "C02": dict(engine="contract", level="model_checking", design_ref="DESIGN.md 7/C02",
                technique="TLC trace validation of exhaustive small images and seeded content classes",
                text="Exhaustive tiny images at P=2 (thorough: P=3) through predictors 0..7 and SV1, every precision 2..16, alternating "
                     "extremes, difference -32768 and deep-Huffman histograms; TLC checks sample identity and reported geometry on every "
                     "recorded Encode/Decode. The Huffman/predictor mechanism specifications (C13) are the model-checked part.",
                note=A_CONTRACT),
    "C03": dict(engine="contract", level="model_checking", design_ref="DESIGN.md 7/C03",
                technique="TLC trace validation of exhaustive small images and seeded content classes",
                text="All images up to 3x2 at P=2 and 2-sample images at P=4 (thorough: 3x3 at P=2, 2x2 at P=4), every precision 2..16, "
                     "13 content classes incl. run/interruption/line-end/width-1 cases; TLC checks identity and geometry per call. "
                     "The T.87 mechanism specification (C14) is the model-checked part.",
                note=A_CONTRACT),
    "C04": dict(engine="contract", level="model_checking", design_ref="DESIGN.md 7/C04",
                technique="TLC trace validation over a randomised configuration lattice + TileGrid model checking",
                text="Round-robin/random sweep of components 1..4 x P 1..16 x signedness x levels 0..6 x 22 code-block shapes x "
                     "precincts x 5 progressions x layers 1..6 x MCT, size grids and code-block-boundary sizes with noise; a 'lenff' "
                     "family places packet-header ends on 0xFF; TLC checks value identity and geometry/precision/signedness.",
                note=A_CONTRACT + "; T1/T2 internals are exercised through the round trip only"),
    "C05": dict(engine="contract", level="model_checking", design_ref="DESIGN.md 7/C05",
                technique="TLC trace validation of registry-codec round trips over accepted parameter objects",
                text="Registered .90/.92 codecs with nil/default/typed/generic parameter objects satisfying the property's premise, "
                     "FrameInfo grid (BitsStored 2..16, SPP 1/3, signed), widths 1..40 x heights 1..80; TLC checks frame count and "
                     "byte identity.",
                note=A_CONTRACT),
    "C06": dict(engine="contract", level="model_checking", design_ref="DESIGN.md 7/C06",
                technique="TLC trace validation of registry-codec round trips",
                text="Registered .201/.202 codecs over a Rows x Columns grid incl. 1-wide/high images, block sizes 4..64, levels 0..6, "
                     "BitsStored <= BitsAllocated, signed/unsigned; TLC checks byte identity; known finding keyed by a predicate TLC "
                     "evaluates from the stream's COD marker. The 14 third-party OpenJPH/fo-dicom codestreams of test-data/htj2k/interop "
                     "are decoded through the registered codecs and compared with their raw images.",
                note=A_CONTRACT + "; of the HT cleanup pass only the MEL coder is transcribed (spec/Mel.tla, informational companion)"),
    "C07": dict(engine="contract", level="model_checking", design_ref="DESIGN.md 7/C07",
                technique="TLC evaluates the per-sample NEAR bound and range on traces",
                text="Every P in 2..16 x NEAR sweep, NEAR-aware content (range ends, ramps of step 2N+1/2N, slow RGB ramps, saturated "
                     "spikes), exhaustive tiny images; TLC evaluates |out-src| <= NEAR, 0 <= out <= MAXVAL, reported NEAR and geometry.",
                note=A_CONTRACT),
    "C10": dict(engine="framemap", level="model_checking", design_ref="DESIGN.md 7/C10",
                technique="TLC-enumerated call histories replayed into the codecs; TLC trace validation against a solo-execution memo",
                text="Every history of 2 operations over frame sequences of length 1..2 (thorough 1..3) x 3 frames x 2 parameter "
                     "objects, simulated longer histories, on 14 syntaxes x FrameInfo variants and on reused jpeg2000.Decoder objects; "
                     "each call must equal the memo frame by frame, leave caller buffers unchanged, and have the contractual size.",
                note=A_CONTRACT + "; outputs compared by SHA-256 + length"),
    "C19": dict(engine="contract", level="model_checking", design_ref="DESIGN.md 7/C19",
                technique="TLC model checking of T.800 Annex B geometry + TLC trace validation of tiled round trips",
                text="TileGrid (tiles partition the image, sub-bands partition the tile-component, two formulations of B.5 agree) is "
                     "model-checked for all W,H <= 8/12; every (W,H,TW,TH) grid up to 6/12 and seeded grids up to 600 are replayed; "
                     "TLC checks identity and classifies rejections by whether tile-local and absolute geometry coincide.",
                note=A_CONTRACT + "; most grids fall under a known finding (encoder ignores the tile origin)"),

    "C08": dict(engine="robust", level="exploration", design_ref="DESIGN.md 7/C08",
                technique="TLC-planned grammar-aware stream corruption replayed into every decoder; TLC trace validation of outcomes",
                text="38 valid template streams (every codec, package-level and registered-codec entry points, third-party HTJ2K "
                     "fixtures); TLC plans single-byte edits of every header byte x a value set, body bytes, every truncation point, "
                     "random tails, double edits, FrameInfo mismatches; each decode runs under recover() in a child; RobustTrace accepts "
                     "only ok/error outcomes.",
                note="grammar-directed enumeration without coverage feedback; deep decoder states only via templates"),
    "C09": dict(engine="robust", level="exploration", design_ref="DESIGN.md 7/C09",
                technique="same plan as C08; TLC computes the declared size from the edited header and bounds time / peak memory",
                text="Same edit plan; the trace carries wall time, allocation and (second pass) VmHWM peak; RobustTrace computes the "
                     "size the edited stream declares (saturating arithmetic) and rejects time > budget or memory out of proportion "
                     "to max(input, declared output).",
                note="budgets: 10 s, 6 GiB address space; inputs declaring > 2^27 samples are out of the property's stated scope and "
                     "get a 1 s scheduling budget, verified in scope by TLC; one known finding (HTJ2K layer count)"),
    "C11": dict(engine="lossybounds", level="model_checking", design_ref="DESIGN.md 7/C11",
                technique="TLC derives the per-sample bound from the stream's DQT tables and validates round-trip traces",
                text="baseline (8-bit) and extended (8/12-bit) encoders over quality 1..100 x grey/RGB x 9 content classes x sizes "
                     "incl. non-multiples of 8/16; TLC parses DQT from the emitted stream, computes the worst-case IDCT-gain bound "
                     "(JpegDCT.tla) and checks max |out-src|, geometry, and the declared range.",
                note="bound = sum of half-steps x IDCT basis gains (+ colour-conversion gain and rounding allowance); detects gross "
                     "and moderate errors, not 1-LSB deviations of the DCT arithmetic"),
    "C12": dict(engine="lossybounds", level="model_checking", design_ref="DESIGN.md 7/C12",
                technique="TLC derives the per-sample bound from QCD step sizes and 9-7 synthesis gains and validates round-trip traces",
                text="irreversible single-tile round trips without a rate target: P {8,12,16} x signed x components {1,3} x quality "
                     "1..100 x levels 0..6 x code-block sizes x 9 classes; TLC decodes QCD (expounded / derived), computes "
                     "sum_b gain(b) x step(b) and checks max |out-src|, geometry and range.",
                note="closed-form infinity-norm gains; fixed rounding allowance of 3 grey levels; not sensitive to errors below the bound"),
    "C13": dict(engine="jpeglossless", level="model_checking", design_ref="DESIGN.md 7/C13",
                technique="independent T.81 lossless codec in TLA+: model-checked, reference-encoder streams replayed into the decoder, "
                          "library streams decoded by the TLA+ decoder",
                text="MC_JpegLossless: Enc/Dec machines agree for all tiny images x predictors 1..7 x Pt, all 65536 differences "
                     "EXTEND/category (ASSUME); JllGen simulation produces conformant streams (custom DHT, Td 0..3, Pt, restart-free) "
                     "that lossless.Decode/lossless14sv1.Decode must decode to the specified samples; every library stream is walked "
                     "(SOF3/DHT/SOS grammar) and decoded sample by sample by the TLA+ decoder.",
                note="TLA+ decoding limited to images <= 32x32 per scenario for time; restart intervals not generated"),
    "C14": dict(engine="jpegls", level="model_checking", design_ref="DESIGN.md 7/C14",
                technique="independent T.87 codec in TLA+: model-checked encoder/decoder pair; library streams decoded by the TLA+ decoder",
                text="MC_JpegLS: the T.87 encoder and decoder machines are inverse on all tiny images (P 2/3, NEAR 0..1, ILV "
                     "none/line/sample for 3 components); JlsTrace steps the TLA+ decoder through every library stream (SOF55/LSE/SOS "
                     "grammar, thresholds, RESET, run-interruption contexts) and compares every sample, and replays TLA+-encoded "
                     "streams into jpegls.Decode.",
                note="images <= 24x24 in trace validation; LSE mapping tables not modelled (the library does not emit them)"),
    "C16": dict(engine="markers", level="model_checking", design_ref="DESIGN.md 7/C16",
                technique="TLC walks every emitted stream with the marker grammars of T.81 B / T.87 C / T.800 A",
                text="Every encoder x configuration lattice of C02..C07/C11/C12: the stream must parse completely (segment lengths, "
                     "mandatory order, SIZ/COD/QCD field ranges, SOT/Psot/TLM consistency, tile-part indices, no marker codes in "
                     "packet bodies / MQ segments, JPEG byte stuffing, EOI/EOC at the end) and declare the encoded image.",
                note="JPEG 2000 packets are read bit by bit by the strict T.800 B.10 reader of spec/PacketHeader.tla; it is used to "
                     "name the missing-stuffed-byte defect on streams with plain packet structure; streams whose structure the "
                     "library builds differently from B.6/B.7 (user precincts, empty sub-bands, tile-local geometry) are counted, "
                     "not judged"),
    "C17": dict(engine="args", level="model_checking", design_ref="DESIGN.md 7/C17",
                technique="TLC-generated argument tuples replayed into every encoder; TLC trace validation of reject-or-round-trip",
                text="ArgsGen enumerates every single off-nominal argument and pairs of them (dimensions 0/-1/65535/65536, "
                     "components, bit depth, quality/NEAR/predictor/levels/code-block/layers, buffer lengths) for 8 encoders and the "
                     "codec-level entry points; ArgsTrace accepts an error, or success whose stream decodes to the input "
                     "(lossless) / to the declared geometry (lossy); panics and silent corruption are rejected.",
                note="one known finding (jlsnear accepts NEAR > MAXVAL/2, pinned by an existing test)"),
    "C18": dict(engine="sharedmem", level="model_checking", design_ref="DESIGN.md 7/C18",
                technique="SharedMem interleaving model over extracted package state (TLC) + TLC-scheduled concurrent executions under "
                          "the race detector validated against solo results",
                text="go/ast extraction of every package-level variable and its writers reachable from codec entry points feeds "
                     "SharedMem.tla (NoRace over all 2-call overlaps; static obligation: no reachable writer outside init); TLC emits "
                     "overlap schedules (all same-codec pairs + cross-codec pairs) that vdrive runs with -race, gates forcing overlap; "
                     "ConcTrace requires each result to equal the solo memo, parameters objects unchanged, no race report.",
                note="the race detector observes only executed interleavings; known finding: nearlossless SetParameter write-back"),
    "C20": dict(engine="dwt", level="model_checking", design_ref="DESIGN.md 7/C20",
                technique="T.800 Annex C/F/G machines model-checked and trace-validated against wavelet, colorspace, mqc and t1",
                text="MC_Dwt53: InvML(FwdML(x)) = x for all windows <= 4x4 (thorough 5x5) x levels x origin parity, RCT inverse; "
                     "MC_MQ: Decode(Encode(d)) = d, carry/stuffing invariants for all decision strings <= 10 over 2 contexts; "
                     "C20Trace/MqTrace validate the library's inverse DWT / RCT outputs against the spec value by value, the MQ "
                     "encoder's registers and bytes step by step (verif hook), and T1 block identity under every code-block style.",
                note="the verdict on T1 is block identity; the Annex D reference decoder (spec/T1.tla, model-checked in MC_T1) decodes the "
                     "encoder's bytes as an informational second opinion; forward-DWT deviations for length-1 "
                     "odd-origin windows are reported as INFO (the inverse is consistent); known finding: lazy mode without TERMALL"),

    "C15": dict(engine="jpegseq", level="model_checking", design_ref="DESIGN.md 7/C15",
                technique="T.81 baseline entropy coder in TLA+ (model-checked) generates streams replayed into the library decoders; "
                          "TLC trace validation against image/jpeg and against the specified DC-only image",
                text="MC_JpegSeq: the encoder machine and the F.2.2 decoder are inverse for 4 (thorough 11) geometries x grey/4:4:4/"
                     "4:2:2/4:2:0/4:4:0 x restart intervals x 2 table families x block-pattern phases, with restart/stuffing/traversal "
                     "invariants; JpegSeqGen simulation emits 400 (4000) interchange streams (sizes 1..33, custom/only-used Huffman "
                     "tables, table-id assignments, DHT/DQT packing, JFIF/Adobe, restart intervals) decoded by baseline.Decode and "
                     "extended.Decode; image/jpeg.Encode streams and the library's own streams (every quality, sizes 1..33^2) both "
                     "ways; InteropTrace checks acceptance, geometry, packing and the 2 / 6 tolerance per sample.",
                note="image/jpeg is the independent implementation the property names; samples above 1500 per image are compared by "
                     "the harness (maximum difference) and only the scalar is judged by TLC"),
}

_PENDING = "check not built yet at this commit (construction order in DESIGN.md section 10); no claim is made"
NOT_APPLICABLE = {}

